"""Orchestration for bin/check: build harness, run TLC model checking, record traces, validate them."""
import argparse, concurrent.futures as cf, json, os, re, shutil, subprocess, sys, time, glob

ROOT = os.path.dirname(os.path.dirname(os.path.abspath(__file__)))
sys.path.insert(0, os.path.join(ROOT, "tools"))
import plan as PLAN

JARS = "/opt/veriftools/tla/tla2tools.jar:/opt/veriftools/tla/CommunityModules-deps.jar"
GOENV = {"GOFLAGS": "-mod=mod", "GOPROXY": "off", "GOSUMDB": "off", "GOTOOLCHAIN": "local"}
NCPU = os.cpu_count() or 4


class Infra(Exception):
    pass


def log(*a):
    print(*a, file=sys.stderr, flush=True)


def sh(cmd, **kw):
    return subprocess.run(cmd, stdout=subprocess.PIPE, stderr=subprocess.STDOUT, text=True, **kw)


# ------------------------------------------------------------------------------------------------
class Run:
    def __init__(self, prop, tier, seed):
        self.prop, self.tier, self.seed = prop, tier, seed
        self.repo = os.environ.get("VERIF_REPO", "/repo")
        self.work = os.path.join(ROOT, "work", "run-%s-%d" % (prop, os.getpid()))
        shutil.rmtree(self.work, ignore_errors=True)
        os.makedirs(self.work)
        self.specdir = os.path.join(self.work, "spec")
        shutil.copytree(os.path.join(ROOT, "spec"), self.specdir)
        self.t0 = time.time()
        self.known = json.load(open(os.path.join(ROOT, "known_findings.json")))["findings"]
        self.violations = []     # (event, job, kind, line)
        self.known_hits = {}     # finding id -> count
        self.cov = {"events": 0, "segments": 0, "distinct": 0, "ops": {}, "samples": [], "states_real": 0,
                    "edges_real": 0, "jobs": []}
        self.mc = []             # per MC run: dict
        self.extra = {}

    def cleanup(self):
        shutil.rmtree(self.work, ignore_errors=True)
        try:
            os.rmdir(os.path.join(ROOT, "work"))
        except OSError:
            pass

    # -------------------------------------------------------------------------------- build
    def build(self, race=False):
        env = dict(os.environ, **GOENV)
        hdir = os.path.join(ROOT, "harness")
        out = os.path.join(self.work, "harness-race" if race else "harness")
        cmd = ["go", "build"]
        if self.repo != "/repo":
            # redirect the replace directive to the scratch copy under test
            mod = open(os.path.join(hdir, "go.mod")).read().replace("=> /repo", "=> " + self.repo)
            mf = os.path.join(self.work, "alt.mod")
            open(mf, "w").write(mod)
            shutil.copy(os.path.join(hdir, "go.sum"), os.path.join(self.work, "alt.sum"))
            cmd += ["-modfile", mf]
        if race:
            cmd += ["-race"]
        cmd += ["-o", out, "."]
        p = sh(cmd, cwd=hdir, env=env)
        if p.returncode != 0:
            raise Infra("harness build failed:\n" + p.stdout[-4000:])
        return out

    # -------------------------------------------------------------------------------- TLC
    def tlc(self, spec, cfg, env=None, workers=1, xmx="3g", timeout=3600, extra=()):
        md = os.path.join(self.work, "md-%d-%d" % (os.getpid(), time.time_ns() % 10**9))
        cmd = ["java", "-Xmx" + xmx, "-Xss64m", "-XX:+UseParallelGC", "-cp", JARS, "tlc2.TLC", "-workers", str(workers),
               "-metadir", md, "-config", cfg] + list(extra) + [spec]
        e = dict(os.environ)
        e.pop("JAVA_TOOL_OPTIONS", None)
        if env:
            e.update(env)
        try:
            p = subprocess.run(cmd, cwd=self.specdir, env=e, stdout=subprocess.PIPE, stderr=subprocess.STDOUT,
                               text=True, timeout=timeout)
        except subprocess.TimeoutExpired:
            shutil.rmtree(md, ignore_errors=True)
            raise Infra("TLC timed out on %s" % spec)
        shutil.rmtree(md, ignore_errors=True)
        return p.stdout

    def run_mc(self, m):
        """exhaustive TLC run of a bounded model-checking configuration"""
        t = time.time()
        workers = m.get("workers", min(8, NCPU))
        out = self.tlc(m["spec"] + ".tla", m["cfg"], workers=workers, xmx=m.get("xmx", "6g"),
                       timeout=m.get("timeout", 1800), env=m.get("env"))
        ok = "Model checking completed. No error has been found." in out
        mm = re.search(r"^(\d+) states generated, (\d+) distinct states found", out, re.M)
        if not ok or not mm:
            raise Infra("model checking of %s/%s failed:\n%s" % (m["spec"], m["cfg"], out[-3000:]))
        r = {"spec": m["spec"], "cfg": m["cfg"], "generated": int(mm.group(1)), "distinct": int(mm.group(2)),
             "wall_s": round(time.time() - t, 1), "checks": m.get("checks", "")}
        log("  MC %-18s %-22s %9d distinct %10d generated  %.1fs" % (m["spec"], m["cfg"], r["distinct"], r["generated"], r["wall_s"]))
        return r

    def run_proof(self, pr):
        """TLAPS proof (extra evidence next to the model-checking claim)"""
        d = os.path.join(self.work, "proofs")
        if not os.path.isdir(d):
            shutil.copytree(os.path.join(ROOT, "spec", "proofs"), d)
        t = time.time()
        m = None
        for attempt in (1, 2):  # the proofs are about the models, not about /repo: a failure here is infrastructure (load), never a verdict
            try:
                p = sh(["tlapm", "--threads", "8", pr["module"]], cwd=d, timeout=900)
                m = re.search(r"All (\d+) obligations? proved", p.stdout)
            except Exception as ex:  # noqa
                log("  PROOF %s: %s" % (pr["module"], ex))
            if m:
                break
        if not m:
            log("  PROOF %-18s NOT re-checked in this run (tlapm trouble); not part of the verdict" % pr["module"])
            return {"module": "spec/proofs/" + pr["module"], "theorem": pr["what"], "obligations": 0, "discharged": 0,
                    "checker_cmd": "tlapm --threads 8 " + pr["module"], "note": "tlapm did not finish in this run"}
        r = {"module": "spec/proofs/" + pr["module"], "theorem": pr["what"], "obligations": int(m.group(1)), "discharged": int(m.group(1)),
             "checker_cmd": "tlapm --threads 8 " + pr["module"], "wall_s": round(time.time() - t, 1)}
        log("  PROOF %-18s %d obligations proved  %.1fs" % (pr["module"], r["obligations"], r["wall_s"]))
        return r

    @staticmethod
    def _norm(text):
        try:
            return json.dumps(json.loads(text), sort_keys=True, separators=(",", ":"))
        except ValueError:
            return text

    def run_fidelity(self, harness, f):
        """state-set comparison implementation-shaped model vs real code (information, never a verdict)"""
        out = self.tlc(f["spec"] + ".tla", f["cfg"], workers=1, xmx="4g", timeout=600)
        model, medges = set(), set()
        for line in out.splitlines():
            if line.startswith('"S|'):
                model.add(self._norm(line[3:-1].replace('\\"', '"')))
            elif line.startswith('"E|'):
                t = self._norm(line[3:-1].replace('\\"', '"'))
                if '"Put"' in t or '"Remove"' in t:
                    medges.add(t)
        p = sh([harness, "canon", "-kind", f["arg"]], timeout=600)
        code, cedges = set(), set()
        for l in p.stdout.splitlines():
            if l.startswith("E|"):
                cedges.add(self._norm(l[2:]))
            elif l.strip():
                code.add(self._norm(l))
        r = {"model": f["spec"] + "/" + f["cfg"], "universe": f["arg"], "model_states": len(model), "code_states": len(code),
             "model_edges": len(medges), "code_edges": len(cedges),
             "identical": model == code and len(model) > 0 and medges == cedges}
        if not r["identical"]:
            r["only_in_model"] = sorted(model - code)[:3]
            r["only_in_code"] = sorted(code - model)[:3]
        if not r["identical"] and medges != cedges:
            r["edges_only_in_model"] = sorted(medges - cedges)[:2]
            r["edges_only_in_code"] = sorted(cedges - medges)[:2]
        log("  FIDELITY %-10s %-16s model %6d states %6d edges  code %6d states %6d edges  %s" % (f["spec"], f["arg"], len(model), len(medges), len(code), len(cedges),
                                                               "identical" if r["identical"] else "MODEL DRIFT"))
        return r

    def run_sim(self, sims):
        """TLC's simulator generates behaviours of the implementation-shaped tree models in universes far beyond the
        exhaustive ones; the harness replays them on the real code (job map, VERIF_SIM): recorded and validated like any
        other history, and compared state by state with what the model predicted (model_replay; never a verdict)."""
        d = os.path.join(self.work, "sim")
        os.makedirs(d, exist_ok=True)
        def one(s):
            num = s["num"] * (4 if self.tier == "thorough" else 1)
            out = self.tlc(s["spec"] + ".tla", s["cfg"], workers=1, xmx="2g", timeout=900,
                           extra=["-simulate", "num=%d" % num, "-depth", str(s["depth"] + 1), "-seed", str(self.seed)])
            if "Finished in" not in out or "Error:" in out:
                raise Infra("TLC simulation of %s failed:\n%s" % (s["cfg"], out[-2000:]))
            kept, prev = [], None
            for line in out.splitlines():
                if not line.startswith('"B|'):
                    continue
                t = line[3:-1].replace('\\"', '"')
                # the simulator evaluates the printing invariant on every successor of the last state: keep one per behaviour
                pre = t[:t.rfind(',["')]
                if pre != prev:
                    kept.append(t)
                    prev = pre
            with open(os.path.join(d, s["cfg"][:-4] + ".ndjson"), "w") as f:
                f.write("\n".join(kept) + ("\n" if kept else ""))
            log("  SIM %-10s %3d behaviours of %d calls generated by TLC" % (s["cfg"][:-4], len(kept), s["depth"]))
            return {"model": s["spec"] + "/" + s["cfg"], "behaviours": len(kept), "depth": s["depth"]}
        with cf.ThreadPoolExecutor(max_workers=4) as ex:
            res = list(ex.map(one, sims))
        os.environ["VERIF_SIM"] = d
        return res

    # -------------------------------------------------------------------------------- traces
    def record(self, harness, job, kind, idx, retried=False):
        out = os.path.join(self.work, "%s-%s-%d.ndjson" % (job, kind or "all", idx))
        cmd = [harness, job, "-out", out, "-tier", self.tier, "-seed", str(self.seed)]
        if kind:
            cmd += ["-kind", kind]
        env = dict(os.environ, GOMAXPROCS="4", GOMEMLIMIT="6GiB")
        if retried:
            env["VERIF_WATCHDOG_MS"] = str(4 * int(os.environ.get("VERIF_WATCHDOG_MS", "10000")))
            for f in (out, out + ".cap", out + ".stats.json"):
                if os.path.exists(f):
                    os.remove(f)
        if harness.endswith("-race"):
            rl = os.path.join(self.work, "racelog-%s-%d" % (kind or "all", idx))
            env["VERIF_RACELOG"] = rl
            env["GORACE"] = "log_path=%s halt_on_error=0 exitcode=0" % rl
        try:
            p = subprocess.run(cmd, env=env, stdout=subprocess.PIPE, stderr=subprocess.STDOUT, text=True, timeout=900)
        except subprocess.TimeoutExpired:
            raise Infra("harness timed out: " + " ".join(cmd))
        if p.returncode == 3 and not retried:
            # the watchdog expired in some call.  A call that really does not return will not return the second time either;
            # one that was only slow on a loaded machine gets four times the limit.  The second run is the one that counts.
            return self.record(harness, job, kind, idx, retried=True)
        if p.returncode not in (0, 3):
            if self.prop != "C17":
                raise Infra("harness failed (%d): %s\n%s" % (p.returncode, " ".join(cmd), p.stdout[-3000:]))
            # C17: a call that kills the process.  Run again in intent mode to name the call, and let TLC judge it.
            intent = out + ".intent"
            env2 = dict(env, VERIF_INTENT=intent)
            try:
                p2 = subprocess.run(cmd, env=env2, stdout=subprocess.PIPE, stderr=subprocess.STDOUT, text=True, timeout=1800)
            except subprocess.TimeoutExpired:
                raise Infra("harness timed out in intent mode: " + " ".join(cmd))
            if p2.returncode in (0, 3) or not os.path.exists(intent):
                raise Infra("harness failed (%d) but not reproducibly: %s\n%s" % (p.returncode, " ".join(cmd), p.stdout[-2000:]))
            d = json.load(open(intent))
            d.update({"panic": True, "pmsg": "fatal: the call killed the process (exit %d): %s" % (p2.returncode, p2.stdout[-300:].replace("\n", " | ")),
                      "timeout": False, "obsbad": True, "out": 0, "cmps": 0, "post": 0, "r": [], "mut": False, "fp": ["", "", ""]})
            d.setdefault("a", {}); d.setdefault("rs", 1); d.setdefault("pre", 0); d.setdefault("cfg", {})
            good = [l for l in open(out, errors="replace").read().split("\n") if l.endswith("}")]
            open(out, "w").write("\n".join(good + [json.dumps(d)]) + "\n")
            return out, {"events": len(good) + 1, "segments": 1, "distinct": 1, "fatal": True}, 3
        stats = {}
        sp = out + ".stats.json"
        if os.path.exists(sp):
            stats = json.load(open(sp))
        return out, stats, p.returncode

    def split(self, path, max_bytes=24 << 20, seg_bytes=5 << 20):
        """split a trace into pieces TLC validates in parallel: at segment boundaries (rs = 1), and inside the long
        segments of scripted histories (runs of rs = 0 lines) - there the first line of the new piece is given the
        previous line's post observation as its pre state, which is exactly what the trace specification continues from"""
        if os.path.getsize(path) <= min(max_bytes, seg_bytes):
            return [(path, 0)]
        rs_re = re.compile(rb'"rs":(\d)')
        # pass 1: which segments contain rs = 2 lines (they refer to the segment's first state: never cut those)
        seg_of, has2, seg = [], [], -1
        with open(path, "rb") as f:
            for line in f:
                m = rs_re.search(line[-200:]) or rs_re.search(line)
                rs = int(m.group(1)) if m else 1
                if rs == 1 or seg < 0:
                    seg += 1
                    has2.append(False)
                if rs == 2:
                    has2[seg] = True
                seg_of.append((seg, rs))
        pieces, cur, size, n, prev = [], None, 0, 0, None
        with open(path, "rb") as f:
            for line in f:
                seg, rs = seg_of[n]
                cut = cur is None or (size > max_bytes and rs == 1)
                if not cut and rs == 0 and size > seg_bytes and not has2[seg] and prev is not None:
                    try:
                        pe = json.loads(prev)
                        if not pe.get("obsbad") and isinstance(pe.get("post"), dict):
                            e = json.loads(line)
                            e["rs"], e["pre"] = 1, pe["post"]
                            line = (json.dumps(e, separators=(",", ":")) + "\n").encode()
                            cut = True
                    except ValueError:
                        pass
                if cut:
                    if cur:
                        cur.close()
                    pp = "%s.p%d" % (path, len(pieces))
                    pieces.append((pp, n))
                    cur, size = open(pp, "wb"), 0
                cur.write(line)
                size += len(line)
                n += 1
                prev = line
        if cur:
            cur.close()
        os.remove(path)
        return pieces

    def validate(self, spec, piece, offset, prop=None):
        out = self.tlc(spec + ".tla", "Trace.cfg", env={"TRACE": piece, "PROP": prop or self.prop}, workers=1, xmx="4g")
        if "Model checking completed. No error has been found." not in out:
            raise Infra("TLC failed validating %s with %s:\n%s" % (piece, spec, out[-3000:]))
        rej = [int(x) for x in re.findall(r'"REJECT\|(\d+)"', out)]
        mm = re.search(r"^(\d+) states generated, (\d+) distinct", out, re.M)
        return rej, (int(mm.group(1)) - 1 if mm else 0)

    def lines(self, piece, nums):
        want, got = set(nums), {}
        with open(piece) as f:
            for i, line in enumerate(f, 1):
                if i in want:
                    got[i] = json.loads(line)
                    if len(got) == len(want):
                        break
        return got

    def classify(self, e):
        """known finding (listed, status known) or violation"""
        for kf in self.known:
            if kf.get("status") != "known" or self.prop not in kf["property"]:
                continue
            m = kf["match"]
            if "kind" in m and e.get("kind") not in m["kind"]:
                continue
            if "op" in m and e.get("op") not in m["op"]:
                continue
            if "where" in m:
                try:
                    if not eval(m["where"], {"__builtins__": {}}, {"e": e, "len": len, "any": any, "all": all, "sorted": sorted, "set": set}):
                        continue
                except Exception:
                    continue
            return kf
        return None

    def run_traces(self, harness, harness_race, tjs):
        """record every (job, kind) of the plan with one pool of harness processes, then validate every piece with one
        pool of TLC processes"""
        tasks = []
        for ji, tj in enumerate(tjs):
            kinds = tj.get("kinds") or PLAN.KINDS.get(tj["job"]) or [None]
            if tj.get("together"):
                kinds = [",".join(k for k in kinds if k)] if kinds != [None] else [None]
            for ki, kind in enumerate(kinds):
                tasks.append((ji, tj, kind, 100 * ji + ki))
        t = time.time()
        per_job = {ji: {"job": tj["job"], "spec": tj["spec"], "events_validated": 0, "record_s": 0.0, "validate_s": 0.0}
                   for ji, tj in enumerate(tjs)}

        def rec(task):
            ji, tj, kind, idx = task
            t0 = time.time()
            r = self.record(harness_race if tj.get("race") else harness, tj["job"], kind, idx)
            per_job[ji]["record_s"] = round(max(per_job[ji]["record_s"], time.time() - t0), 1)
            return r
        with cf.ThreadPoolExecutor(max_workers=max(2, NCPU - 4)) as ex:
            recs = list(ex.map(rec, tasks))
        pieces = []
        for (path, stats, rc), (ji, tj, kind, idx) in zip(recs, tasks):
            self.cov["events"] += stats.get("events", 0)
            self.cov["distinct"] += stats.get("distinct", 0)
            self.cov["states_real"] += stats.get("states", 0)
            self.cov["edges_real"] += stats.get("edges", 0)
            self.cov["segments"] += stats.get("segments", 0)
            for k, v in stats.get("ops", {}).items():
                self.cov["ops"][k] = self.cov["ops"].get(k, 0) + v
            if len(self.cov["samples"]) < 12:
                self.cov["samples"] += stats.get("samples", [])[:3]
            for k, v in (stats.get("extra") or {}).items():
                if k == "sim":       # replay of TLC-simulated behaviours: one entry per (kind, model)
                    self.extra.setdefault("model_replay", {}).setdefault("replayed", []).extend(v)
                    continue
                self.extra[k] = self.extra.get(k, 0) + v if isinstance(v, (int, float)) else v
            if os.path.getsize(path) == 0:
                continue
            for pp, off in self.split(path):
                pieces.append((pp, off, kind, ji))
        t1 = time.time()
        pieces.sort(key=lambda x: -os.path.getsize(x[0]))      # largest first
        with cf.ThreadPoolExecutor(max_workers=max(2, NCPU - 2)) as ex:
            def val(piece):
                pp, off, kind, ji = piece
                t0 = time.time()
                r = self.validate(tjs[ji]["spec"], pp, off, tjs[ji].get("prop"))
                per_job[ji]["validate_s"] = round(per_job[ji]["validate_s"] + time.time() - t0, 1)   # CPU-seconds of TLC, summed
                return r
            futs = {ex.submit(val, piece): piece for piece in pieces}
            for fu in cf.as_completed(futs):
                pp, off, kind, ji = futs[fu]
                rej, n = fu.result()
                per_job[ji]["events_validated"] += n
                if rej:
                    evs = self.lines(pp, rej)
                    for ln in rej:
                        e = evs[ln]
                        kf = self.classify(e)
                        if kf:
                            self.known_hits[kf["id"]] = self.known_hits.get(kf["id"], 0) + 1
                        else:
                            self.violations.append((e, tjs[ji]["job"], kind, off + ln, tjs[ji]["spec"]))
                os.remove(pp)
        self.violations.sort(key=lambda v: (v[1], str(v[2]), v[3]))
        for ji in sorted(per_job):
            pj = per_job[ji]
            self.cov["jobs"].append(pj)
            log("  TRACE %-8s %-12s %8d events validated  (slowest recording %.1fs, TLC %.1f cpu-s)" % (
                pj["job"], pj["spec"], pj["events_validated"], pj["record_s"], pj["validate_s"]))
        log("  traces: %d pieces, recording %.1fs, validation %.1fs" % (len(pieces), t1 - t, time.time() - t1))

    # -------------------------------------------------------------------------------- evidence
    def evidence(self, p, nviol):
        states = sum(m["distinct"] for m in self.mc)
        trans = sum(m["generated"] for m in self.mc)
        cov = {
            "states": states, "transitions": trans,
            "traces_validated_against_impl": self.cov["segments"],
            "samples": self.cov["samples"][:8] or [{"note": "no events"}],
            "evaluations": self.cov["events"],
            "distinct_nontrivial": self.cov["distinct"],
            "rule": p.get("rule", PLAN.DEFAULT_RULE),
            "exhaustive": bool(p.get("exhaustive", True)),
            "model_checking_runs": self.mc,
            "trace_jobs": self.cov["jobs"],
            "real_code_states_toured": self.cov["states_real"],
            "real_code_edges_toured": self.cov["edges_real"],
            "events_per_operation": dict(sorted(self.cov["ops"].items())),
            "known_findings_hit": self.known_hits,
            "trusted_base": PLAN.TRUSTED + p.get("trusted", []),
        }
        if not self.mc:
            # no bounded model-checking run in this plan yet: report the exploration-style counts only
            del cov["states"], cov["transitions"]
        cov.update(self.extra)
        ev = {"property_id": self.prop, "tier": self.tier, "seed": self.seed, "level": p["level"], "coverage": cov,
              "assumptions": PLAN.ASSUMPTIONS + p.get("assumptions", []), "wall_s": round(time.time() - self.t0, 1),
              "violations": nviol}
        os.makedirs(os.path.join(ROOT, "evidence"), exist_ok=True)
        with open(os.path.join(ROOT, "evidence", self.prop + ".json"), "w") as f:
            json.dump(ev, f, indent=1, sort_keys=True)


def describe(e):
    a = e.get("a", {})
    args = {k: v for k, v in a.items() if v not in (0, "", [], None)} if isinstance(a, dict) else a
    def short(x):
        t = json.dumps(x, sort_keys=True)
        return t if len(t) <= 240 else t[:200] + " ... (%d characters)" % len(t)
    return "%s.%s(%s) -> %s%s" % (e.get("kind"), e.get("op"), short(args), short(e.get("r")),
                                  " PANIC: " + str(e.get("pmsg"))[:300] if e.get("panic") else "")


def check(prop, tier, seed, only_event=None):
    p = PLAN.PLAN[prop]
    run = Run(prop, tier, seed)
    try:
        harness = run.build()
        harness_race = run.build(race=True) if p.get("race") else None
        mcs = []
        for m in p.get("mc", []):
            if tier == "quick" and m.get("thorough_only"):
                continue
            mm = dict(m)
            if tier == "thorough" and "cfg_thorough" in m:
                mm["cfg"] = m["cfg_thorough"]
            mm.setdefault("workers", 2 if tier == "quick" else 4)
            mcs.append(mm)
        with cf.ThreadPoolExecutor(max_workers=6 if tier == "quick" else 4) as ex:
            run.mc = list(ex.map(run.run_mc, mcs))
        if p.get("proofs"):
            run.extra["tlaps_proofs"] = [run.run_proof(pr) for pr in p["proofs"]]
        fids = p.get("fidelity", [])
        if fids:
            try:
                with cf.ThreadPoolExecutor(max_workers=6) as ex:
                    run.extra["model_fidelity"] = list(ex.map(lambda f: run.run_fidelity(harness, f), fids))
                run.extra["model_drift"] = not all(r["identical"] for r in run.extra["model_fidelity"])
            except Exception as ex:  # never a verdict
                run.extra["model_fidelity"] = [{"error": str(ex)[:300]}]
        if p.get("sim"):
            run.extra["model_replay"] = {"generated": run.run_sim(p["sim"])}
        only = [x for x in os.environ.get("VERIF_ONLY_JOBS", "").split(",") if x]   # development aid: restrict to some harness jobs
        run.run_traces(harness, harness_race, [tj for tj in p.get("traces", []) if not (tier == "quick" and tj.get("thorough_only"))
                                               and (not only or tj["job"] in only)])
        # report
        for fid, n in sorted(run.known_hits.items()):
            kf = [k for k in run.known if k["id"] == fid][0]
            print("KNOWN-FINDING: property=%s %s: %s (%d events)" % (prop, fid, kf["what"], n))
        nviol = len(run.violations)
        rc = 0
        if nviol:
            os.makedirs(os.path.join(ROOT, "replays"), exist_ok=True)
            e, job, kind, line, spec = run.violations[0]
            rp = os.path.join(ROOT, "replays", "%s-%s-%d.json" % (prop, tier, seed))
            json.dump({"property": prop, "tier": tier, "seed": seed, "job": job, "kind": kind, "spec": spec, "line": line,
                       "event": e, "count": nviol,
                       "others": [describe(v[0]) for v in run.violations[1:40]]}, open(rp, "w"), indent=1)
            log("first rejected events (%d in total):" % nviol)
            for v in run.violations[:8]:
                log("   " + describe(v[0]))
            print("VIOLATION property=%s replay=%s" % (prop, rp))
            rc = 1
        if run.cov["events"] == 0 and p.get("traces"):
            raise Infra("no events were recorded")
        run.evidence(p, nviol)
        log("%s %s: %s  (%.1fs, %d events, %d MC states)" % (prop, tier, "VIOLATION" if rc else "ok", time.time() - run.t0,
                                                             run.cov["events"], sum(m["distinct"] for m in run.mc)))
        return rc
    finally:
        if not os.environ.get("VERIF_KEEP"):
            run.cleanup()


def main(argv):
    ap = argparse.ArgumentParser()
    ap.add_argument("prop", nargs="?")
    ap.add_argument("--tier", default=os.environ.get("VERIF_TIER", "quick"))
    ap.add_argument("--replay")
    a = ap.parse_args(argv)
    seed = int(os.environ.get("VERIF_SEED", "1") or 1)
    try:
        if a.replay:
            r = json.load(open(a.replay))
            return check(r["property"], r["tier"], r["seed"])
        if a.prop not in PLAN.PLAN:
            log("unknown property", a.prop)
            return 2
        tier = a.tier if a.tier in ("quick", "thorough") else "quick"
        return check(a.prop, tier, seed)
    except Infra as ex:
        log("INFRASTRUCTURE: " + str(ex))
        return 2
