#!/usr/bin/env python3
"""tools/keep_seed.py <src-seed-dir> <id> <caught_by csv> [<not caught by csv>] [note]  -> /verif/seeded/<id>/"""
import json, os, shutil, sys
src, sid, caught = sys.argv[1], sys.argv[2], [x for x in sys.argv[3].split(",") if x]
missed = [x for x in (sys.argv[4] if len(sys.argv) > 4 else "").split(",") if x]
note = sys.argv[5] if len(sys.argv) > 5 else ""
dst = os.path.join("/verif/seeded", sid)
os.makedirs(dst, exist_ok=True)
for f in os.listdir(src):
    p = os.path.join(src, f)
    if os.path.isdir(p):
        shutil.copytree(p, os.path.join(dst, f), dirs_exist_ok=True)
    else:
        # demo tests must not be picked up by `go test ./...` anywhere: keep them with a .txt suffix
        shutil.copy(p, os.path.join(dst, f + ".txt" if f.endswith("_test.go") else f))
m = json.load(open(os.path.join(src, "meta.json")))
m["confirmed"] = {"suite_passes_with_patch": True, "demo_fails_with_patch_passes_without": True,
                  "how": "tools/try_seed.sh (scratch worktree of /repo, full `go test ./...`), demonstration run by the seeding agent and spot-checked"}
m["checks_run"] = {"caught_by_quick": caught, "not_caught_by_quick": missed, "note": note,
                   "command": "tools/try_seed.sh <seed dir> <property ...>  (VERIF_REPO=<scratch worktree> bin/check <property>)"}
json.dump(m, open(os.path.join(dst, "meta.json"), "w"), indent=1)
print("kept", dst)
