#!/bin/bash
# tools/try_refactor.sh <dir with patch.diff> [properties...]  - a behaviour-preserving rewrite: every check must stay at exit 0.
# Applies the patch in a scratch worktree of /repo (never in /repo), runs the suite, runs the quick checks with VERIF_REPO,
# removes the worktree.  Prints one line per property; a failing replay is copied to <dir>/alarm-<property>.json.
set -u
R=$(cd "$1" && pwd); shift
PROPS=${@:-C01 C02 C03 C04 C05 C06 C07 C08 C09 C10 C11 C12 C13 C14 C15 C16 C17 C18}
ROOT=${VERIF_ROOT:-/verif}
export GOFLAGS=-mod=mod GOPROXY=off GOSUMDB=off GOTOOLCHAIN=local
W=/tmp/refwt-$$
git -C /repo worktree add -q --detach $W ${BASE:-HEAD} || exit 2
trap 'git -C /repo worktree remove --force $W >/dev/null 2>&1; rm -rf $W' EXIT
( cd $W && git apply $R/patch.diff ) || { echo "PATCH DOES NOT APPLY"; exit 2; }
( cd $W && go build ./... && go test -vet=off -count=1 ./... 2>&1 | grep -v '^ok\|no test files' | head -5 )
echo "suite: done (lines above, if any, are failures)"
for P in $PROPS; do
  out=$(cd $ROOT && VERIF_REPO=$W timeout 1800 bin/check $P 2>&1)
  rc=$?
  echo "== $P rc=$rc: $(echo "$out" | grep -E 'VIOLATION|KNOWN|INFRA|DRIFT' | head -3 | cut -c1-160 | tr '\n' ' ') $(echo "$out" | tail -1)"
  if [ $rc -ne 0 ]; then echo "$out" | grep -A6 'first rejected' | sed -n 2,6p | cut -c1-300; cp $ROOT/replays/$P-quick-1.json $R/alarm-$P.json 2>/dev/null; fi
done
