#!/usr/bin/env python3
"""bin/selftest [--seeds [ids...]]  - demonstrates that the specification is bound to the code (not a registered check):

  1. corruption: one recorded field of a good trace per family is altered; TLC must reject exactly that line
  2. vacuity guards: negative models TLC must reject (MCAlias_negative; the ring model with a wrap-around off-by-one)
  3. with --seeds: every seeded change in seeded/<id>/ is applied to a scratch worktree of /repo and the checks listed in
     its meta.json (caught_by_quick) must exit 1, while the unchanged tree exits 0
"""
import json, os, re, shutil, subprocess, sys, tempfile
ROOT = os.path.dirname(os.path.dirname(os.path.abspath(__file__)))
sys.path.insert(0, os.path.join(ROOT, "tools"))
import runner

def corrupt(line, fam):
    e = json.loads(line)
    if fam in ("seq", "que", "set"):
        e["post"]["vals"] = [7] + e["post"]["vals"]
    elif fam == "heap":
        e["post"]["vals"] = e["post"]["vals"] + [{"p": 9, "id": 9}]
    elif fam == "map":
        e["post"]["keys"] = e["post"]["keys"] + [42]
    elif fam == "cur":
        e["ret"] = not e["ret"]
    elif fam == "enum":
        e["recv"] = e["recv"] + [5]
    elif fam == "json":
        if e["op"] == "RoundTrip":
            e["fresh"] = e["fresh"] + [1]
        else:
            e["post"] = e["post"] + [1]; e["err"] = False; e["hasref"] = True
    elif fam == "alias":
        e["after"] = e["after"] + [3]; e["snap1"] = e["snap1"] + [3]; e["result"] = [3] + e["result"]
    elif fam == "alg":
        e["r1"]["vals"] = e["r1"]["vals"] + [77]
    elif fam == "clr":
        e["steps"][0]["oc"]["size"] = 5
    elif fam == "shape":
        e["cmps"] = 500
    elif fam == "exo":
        e["out"] = 3
    return json.dumps(e)

FAMS = [("seq", "TraceSeq", "C03", "arraylist"), ("que", "TraceQue", "C05", "circularbuffer"), ("heap", "TraceHeap", "C06", "binaryheap"),
        ("set", "TraceSet", "C04", "linkedhashset"), ("map", "TraceMap", "C01", "hashbidimap"), ("cur", "TraceCursor", "C08", "arraylist"),
        ("enum", "TraceEnum", "C14", "linkedhashset"), ("json", "TraceJSON", "C11", "arrayqueue"), ("alias", "TraceAlias", "C16", "arraystack"),
        ("alg", "TraceAlg", "C13", "hashset"), ("clr", "TraceClear", "C15", "arraystack"), ("shape", "TraceShape", "C07", "treeset"),
        ("exo", "TraceExo", "C17", "doublylinkedlist")]

def main(argv):
    run = runner.Run("SELFTEST", "quick", 1)
    failures = 0
    try:
        harness = run.build()
        print("== 1. corrupted traces must be rejected at the corrupted line")
        for job, spec, prop, kind in FAMS:
            path, stats, rc = run.record(harness, job, kind, 0)
            lines = open(path).read().split("\n")
            lines = [l for l in lines if l][:4000]
            n = min(len(lines), 1500) // 2 + 1
            # the shape family judges only operations by cmps: pick an operation event
            if job == "shape":
                n = next(i + 1 for i, l in enumerate(lines) if '"op":"Put"' in l and i > 20)
            if job == "json":
                n = next(i + 1 for i, l in enumerate(lines) if '"op":"RoundTrip"' in l and i > 5)
            good = os.path.join(run.work, job + ".good.ndjson")
            bad = os.path.join(run.work, job + ".bad.ndjson")
            open(good, "w").write("\n".join(lines) + "\n")
            lines[n - 1] = corrupt(lines[n - 1], job)
            open(bad, "w").write("\n".join(lines) + "\n")
            run.prop = prop
            rg, _ = run.validate(spec, good, 0)
            rb, _ = run.validate(spec, bad, 0)
            # rejections that are listed known findings (F9: uint8 value containers under C11) are not failures of the good trace
            def unlisted(path, nums):
                ev = run.lines(path, nums)
                return [i for i in nums if run.classify(ev[i]) is None]
            rg, rb = unlisted(good, rg), unlisted(bad, rb)
            ok = rg == [] and n in rb
            failures += 0 if ok else 1
            print("   %-6s %-12s %s: good trace %d rejections; corrupted line %d -> rejected lines %s  %s" % (
                job, spec, prop, len(rg), n, rb[:3], "ok" if ok else "FAILED"))
        print("== 2. negative models must be rejected by TLC")
        out = run.tlc("MCAlias.tla", "MCAlias_negative.cfg", workers=2)
        ok = "Invariant NoSharing is violated" in out
        failures += 0 if ok else 1
        print("   MCAlias_negative (Values() hands out the backing array): %s" % ("rejected, ok" if ok else "NOT REJECTED"))
        ring = open(os.path.join(run.specdir, "Ring.tla")).read()
        open(os.path.join(run.specdir, "Ring.tla"), "w").write(ring.replace("IF S0.end + 1 >= Cap THEN 0", "IF S0.end + 1 > Cap THEN 0"))
        out = run.tlc("MCRing.tla", "MCRing2.cfg", workers=2)
        open(os.path.join(run.specdir, "Ring.tla"), "w").write(ring)
        ok = "is violated" in out
        failures += 0 if ok else 1
        print("   Ring with `end + 1 > maxSize` wrap-around: %s" % ("rejected, ok" if ok else "NOT REJECTED"))
        out = run.tlc("DLLIter.tla", "MCDLLIter_f10.cfg", workers=2)
        ok = "is violated" in out
        failures += 0 if ok else 1
        print("   DLLIter with Repaired = FALSE (the linked-list iterator before fix F10, kept across list operations): %s" % ("rejected, ok" if ok else "NOT REJECTED"))
        if "--seeds" in argv:
            ids = [a for a in argv if not a.startswith("--")] or sorted(os.listdir(os.path.join(ROOT, "seeded")))
            print("== 3. seeded changes")
            for sid in ids:
                meta = json.load(open(os.path.join(ROOT, "seeded", sid, "meta.json")))
                props = meta["checks_run"]["caught_by_quick"][:1]
                env = dict(os.environ)
                if meta["checks_run"].get("base"):      # a change written against an earlier commit of /repo (before a fix:)
                    env["BASE"] = meta["checks_run"]["base"]
                p = subprocess.run([os.path.join(ROOT, "tools", "try_seed.sh"), os.path.join(ROOT, "seeded", sid)] + props,
                                   stdout=subprocess.PIPE, stderr=subprocess.STDOUT, text=True, env=env)
                rcs = re.findall(r"== (C\d+) rc=(\d+)", p.stdout)
                ok = rcs and all(rc == "1" for _, rc in rcs)
                failures += 0 if ok else 1
                print("   %-6s %s %s" % (sid, rcs, "ok" if ok else "NOT CAUGHT"))
    finally:
        run.cleanup()
    print("selftest: %s" % ("ok" if failures == 0 else "%d FAILURES" % failures))
    return 0 if failures == 0 else 1

if __name__ == "__main__":
    sys.exit(main(sys.argv[1:]))
