"""Per-property plan: which model-checking configurations TLC explores and which real-code traces
are recorded and validated under the property's obligation."""

KINDS = {
    "seq": ["arraylist", "singlylinkedlist", "doublylinkedlist"],
    "map": ["hashmap", "treemap", "linkedhashmap", "redblacktree", "avltree", "btree", "hashbidimap", "treebidimap"],
    "que": ["arraystack", "linkedliststack", "arrayqueue", "linkedlistqueue", "circularbuffer"],
}

TRUSTED = ["TLC 1.8.0 (tla2tools.jar) and the CommunityModules Json/IOUtils parsers",
           "Go reflect-based projection of the real container state in harness/core.go (read-only)",
           "the Go harness executing the calls it logs (harness/*.go)"]
ASSUMPTIONS = ["exhaustiveness is within the stated bounded universes; by data independence (comparison-based / ==-based code) "
               "a history over N distinct keys is order-isomorphic to one over 1..N",
               "beyond the bounded universes histories are sampled (seeded)"]
DEFAULT_RULE = ("events = public calls executed on the real containers and validated by TLC against the trace specification; "
                "the tour executes every (reachable concrete state, call, argument tuple) edge of the bounded universe once; "
                "distinct_nontrivial counts distinct (kind, operation, argument tuple) combinations executed, argument tuples "
                "of random histories being reduced to (operation, sign of index, comparator)")

PLAN = {
    "C03": dict(level="model_checking", design="6 C03",
                traces=[dict(job="seq", spec="TraceSeq")],
                mc=[]),
    "C01": dict(level="model_checking", design="6 C01",
                traces=[dict(job="map", spec="TraceMap")],
                mc=[]),
    "C05": dict(level="model_checking", design="6 C05",
                traces=[dict(job="que", spec="TraceQue")],
                mc=[]),
}
