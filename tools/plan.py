"""Per-property plan: which model-checking configurations TLC explores and which real-code traces
are recorded and validated under the property's obligation."""

KINDS = {
    "seq": ["arraylist", "singlylinkedlist", "doublylinkedlist"],
    "map": ["hashmap", "treemap", "linkedhashmap", "redblacktree", "avltree", "btree", "hashbidimap", "treebidimap"],
    "set": ["hashset", "treeset", "linkedhashset"],
    "alg": ["hashset", "treeset", "linkedhashset"],
    "heap": ["binaryheap", "priorityqueue"],
    "cur": ["arraylist", "singlylinkedlist", "doublylinkedlist", "arraystack", "linkedliststack", "arrayqueue",
            "linkedlistqueue", "circularbuffer", "priorityqueue", "binaryheap", "treeset", "linkedhashset", "treemap",
            "linkedhashmap", "treebidimap", "redblacktree", "avltree", "btree"],
    "shape": ["redblacktree", "avltree", "btree", "treemap", "treeset", "treebidimap"],
    "enum": ["arraylist", "singlylinkedlist", "doublylinkedlist", "treeset", "linkedhashset", "treemap", "linkedhashmap", "treebidimap"],
    "que": ["arraystack", "linkedliststack", "arrayqueue", "linkedlistqueue", "circularbuffer"],
}

TRUSTED = ["TLC 1.8.0 (tla2tools.jar) and the CommunityModules Json/IOUtils parsers",
           "Go reflect-based projection of the real container state in harness/core.go (read-only)",
           "the Go harness executing the calls it logs (harness/*.go)"]
ASSUMPTIONS = ["exhaustiveness is within the stated bounded universes; by data independence (comparison-based / ==-based code) "
               "a history over N distinct keys is order-isomorphic to one over 1..N",
               "beyond the bounded universes histories are sampled (seeded)"]
DEFAULT_RULE = ("events = public calls executed on the real containers and validated by TLC against the trace specification; "
                "the tour executes every (reachable concrete state, call, argument tuple) edge of the bounded universe once; "
                "distinct_nontrivial counts distinct (kind, operation, argument tuple) combinations executed, argument tuples "
                "of random histories being reduced to (operation, sign of index, comparator)")


# ---- bounded model-checking configurations (spec, cfg, what TLC checks) --------------------------------
def _mc(spec, cfg, checks, **kw):
    d = dict(spec=spec, cfg=cfg + ".cfg", checks=checks)
    d.update(kw)
    return d

MC_RBT = [_mc("MCRBT", "MCRBT", "red-black model, 7 keys: RBInv, Sorted, NavOK (Floor/Ceiling/Get for every probe), MinMaxOK, ShapeInv; Refines AbsMap, WorkBound", cfg_thorough="MCRBT_thorough.cfg"),
          _mc("MCRBT", "MCRBT_vals", "red-black model, 5 keys x 2 values (replace on equal)")]
MC_AVL = [_mc("MCAVL", "MCAVL", "AVL model, 7 keys: AVLInv, Sorted, NavOK, MinMaxOK, ShapeInv; Refines AbsMap, WorkBound", cfg_thorough="MCAVL_thorough.cfg"),
          _mc("MCAVL", "MCAVL_vals", "AVL model, 5 keys x 2 values")]
MC_BT = [_mc("MCBT", "MCBT3", "B-tree model order 3, 8 keys: BTInv, Sorted, GetOK, MinMaxOK, ShapeInv; Refines AbsMap, WorkBound", cfg_thorough="MCBT3_thorough.cfg"),
         _mc("MCBT", "MCBT4", "B-tree model order 4, 8 keys", cfg_thorough="MCBT4_thorough.cfg"), _mc("MCBT", "MCBT5", "B-tree model order 5, 8 keys", cfg_thorough="MCBT5_thorough.cfg"),
         _mc("MCBT", "MCBT6", "B-tree model order 6, 8 keys", cfg_thorough="MCBT6_thorough.cfg"), _mc("MCBT", "MCBT3_vals", "B-tree model order 3, 5 keys x 2 values")]
MC_LH = [_mc("MCLinkedHash", "MCLinkedHash", "linked hash map/set model, 4 keys x 2 values: InStep (table and order list agree); Refines insertion-ordered AbsMap / AbsSet", cfg_thorough="MCLinkedHash_thorough.cfg")]
MC_BIDI = [_mc("MCBidiMap", "MCBidiMap", "bidi map model 3 x 3: MutualInverse, SizesAgree; Refines AbsMap!BidiPutAllowed", cfg_thorough="MCBidiMap_thorough.cfg")]
MC_HIST = [_mc("MCMapHist", "MCMapHist_" + k, "abstract map (%s) against the history reading of C01: GetIsHistory, SizeIsLive, EachOnce, RemoveAbsent" % k)
           for k in ("hash", "sorted", "half", "linked")]
MC_SEQ = [_mc("MCDLL", "MCDLL", "doubly linked list cell model, length <= 4: NoPanic, WF (size, backward chain), GetAgrees; Refines AbsSeq", cfg_thorough="MCDLL_thorough.cfg"),
          _mc("MCArrayList", "MCArrayList", "array list (elements, cap) model, length <= 5: CapInv; Refines AbsSeq", cfg_thorough="MCArrayList_thorough.cfg"),
          _mc("MCSLL", "MCSLL", "singly linked list cell model, length <= 4: NoPanic, WF (size, last); Refines AbsSeq", cfg_thorough="MCSLL_thorough.cfg")]
MC_RING = [_mc("MCRing", "MCRing%d" % c, "ring model capacity %d: IndexInv, FullIffSizeCap, SizeAgrees; Refines bounded FIFO, IdxRefines RingIdx" % c) for c in (1, 2, 3, 4)] + \
          [_mc("MCRing", "MCRing6", "ring model capacity 6 (32 623 states)", thorough_only=True)]
MC_SQ = [_mc("MCStackQueue", "MCStackQueue_" + k, "%s as a delegation layer over the abstract list: Refines LIFO/FIFO" % k)
         for k in ("arraystack", "linkedliststack", "arrayqueue", "linkedlistqueue")]
MC_HEAP = [_mc("MCHeap", "MCHeap_" + c, "heap array model, 6 items, comparator %s: HeapOrdered; Refines AbsHeap (Pop is a minimum, bag exact)" % c)
           for c in ("prio", "maxprio", "prioid")]
MC_ITER = [_mc("RBTIter", "MCRBTIter", "red-black iterator over all 6-key trees: CursorInv (refines AbsCursor incl. NextTo/PrevTo)", cfg_thorough="MCRBTIter_thorough.cfg"),
           _mc("BTIter", "MCBTIter3", "B-tree iterator, order 3, 7 keys: CursorInv", cfg_thorough="MCBTIter3_thorough.cfg"), _mc("BTIter", "MCBTIter4", "B-tree iterator, order 4, 7 keys: CursorInv"),
           _mc("IdxIter", "MCIdxIter", "index iterator over all sequences of length <= 4: CursorInv with NextTo/PrevTo", cfg_thorough="MCIdxIter_thorough.cfg"),
           _mc("DLLIter", "MCDLLIter", "doubly linked list iterator (index + element pointer, re-anchoring on first/last and - fix F10 - wherever a followed link is nil) over all cell-level lists of length <= 3, with every list operation allowed while the iterator is kept (Mutate / stale): CursorInv, NoIterPanic, NoValuePanic", cfg_thorough="MCDLLIter_thorough.cfg"),
           _mc("TreeSetIter", "MCTreeSetIter", "TreeSet iterator (index alongside the red-black iterator), 5 keys: InStep"),
           _mc("AVLIter", "MCAVLIter", "AVL iterator (Node.Next/Prev = walk1) over all 6-key trees: CursorInv", cfg_thorough="MCAVLIter_thorough.cfg")]
MC_JSON = [_mc("MCJSON", "MCJSON_" + d, "abstract loads, discipline %s: Sound, NoSurvivor, RoundTrip" % d)
           for d in ("seq", "ring", "stack", "heap", "unordered", "linkedset", "sortedset", "unorderedmap", "sortedmap", "linkedmap", "unorderedbidi", "sortedbidi")]
MC_LOADERS = [_mc("MCLoaders", "MCLoaders_" + d, "loaders model (serialization.go as repaired), discipline %s: LoadsAreOK (refines AbsJSON!LoadOK), SomeOutcome, RoundTrip" % d)
              for d in ("seq", "ring", "stack", "heap", "unordered", "linkedset", "sortedset", "unorderedmap", "sortedmap", "linkedmap", "unorderedbidi", "sortedbidi")]
MC_ALG = [_mc("MCAlg", "MCAlg", "set algebra loops for all 256 pairs of subsets of a 4-element universe + aliased operands: Exact, OperandsUnchanged")]
MC_ENUM = [_mc("MCEnum", "MCEnum", "laws of AbsEnum over all sequences of length <= 4 and every family member")]
MC_ALIAS = [_mc("MCAlias", "MCAlias", "aliasing machine: NoSharing, ScribbleLeavesContainer, MutateLeavesSnapshots")]
MC_READERS = [_mc("MCReaders", "MCReaders", "ReadersPure, ResultIsSequential over all interleavings of 3 readers")]

PLAN = {
    "C03": dict(level="model_checking", design="6 C03",
                traces=[dict(job="seq", spec="TraceSeq")],
                mc=MC_SEQ),
    "C01": dict(level="model_checking", design="6 C01",
                traces=[dict(job="map", spec="TraceMap")],
                mc=MC_HIST + MC_RBT + MC_AVL + MC_BT + MC_LH + MC_BIDI),
    "C02": dict(level="model_checking", design="6 C02",
                traces=[dict(job="map", spec="TraceMap", kinds=["treemap", "redblacktree", "avltree", "btree", "treebidimap"]),
                        dict(job="set", spec="TraceSet", kinds=["treeset"])],
                mc=MC_RBT[:1] + MC_AVL[:1] + MC_BT[:2]),
    "C07": dict(level="model_checking", design="6 C07",
                traces=[dict(job="map", spec="TraceMap", kinds=["treemap", "redblacktree", "avltree", "btree", "treebidimap"]),
                        dict(job="shape", spec="TraceShape")],
                mc=MC_RBT[:1] + MC_AVL[:1] + MC_BT[:4]),
    "C10": dict(level="model_checking", design="6 C10",
                traces=[dict(job="map", spec="TraceMap", kinds=["hashbidimap", "treebidimap"])],
                mc=MC_BIDI),
    "C04": dict(level="model_checking", design="6 C04",
                traces=[dict(job="set", spec="TraceSet")],
                mc=MC_LH),
    "C06": dict(level="model_checking", design="6 C06",
                traces=[dict(job="heap", spec="TraceHeap")],
                mc=MC_HEAP),
    "C08": dict(level="model_checking", design="6 C08",
                traces=[dict(job="cur", spec="TraceCursor")],
                mc=MC_ITER),
    "C09": dict(level="model_checking", design="6 C09",
                traces=[dict(job="map", spec="TraceMap", kinds=["linkedhashmap"]),
                        dict(job="set", spec="TraceSet", kinds=["linkedhashset"])],
                mc=MC_LH),
    "C11": dict(level="model_checking", design="6 C11",
                traces=[dict(job="json", spec="TraceJSON", together=True)],
                mc=MC_JSON + MC_LOADERS, trusted=["encoding/json (validity, top-level kind, json.Marshal comparison)"]),
    "C12": dict(level="model_checking", design="6 C12",
                traces=[dict(job="json", spec="TraceJSON", together=True),
                        dict(job="jf", spec="TraceSeq", prop="C03", kinds=["arraylist", "singlylinkedlist", "doublylinkedlist"], together=True),
                        dict(job="jf", spec="TraceQue", prop="C05", kinds=["arraystack", "linkedliststack", "arrayqueue", "linkedlistqueue", "circularbuffer"], together=True),
                        dict(job="jf", spec="TraceHeap", prop="C06", kinds=["binaryheap", "priorityqueue"], together=True),
                        dict(job="jf", spec="TraceSet", prop="C04", kinds=["hashset", "treeset", "linkedhashset"], together=True),
                        dict(job="jf", spec="TraceMap", prop="C01", kinds=["hashmap", "treemap", "linkedhashmap", "hashbidimap", "treebidimap", "redblacktree", "avltree", "btree"], together=True),
                        # loads inside the exhaustive tours of every family (every reachable state x a few inputs)
                        dict(job="seq", spec="TraceSeq"), dict(job="que", spec="TraceQue"), dict(job="heap", spec="TraceHeap"),
                        dict(job="set", spec="TraceSet"),
                        dict(job="map", spec="TraceMap", kinds=["hashmap", "treemap", "linkedhashmap", "hashbidimap", "treebidimap", "avltree", "btree"])],
                mc=MC_JSON + MC_LOADERS, trusted=["encoding/json as reference decoder of the input texts (denotation)"]),
    "C13": dict(level="model_checking", design="6 C13",
                traces=[dict(job="alg", spec="TraceAlg")],
                mc=MC_ALG),
    "C14": dict(level="model_checking", design="6 C14",
                traces=[dict(job="enum", spec="TraceEnum")],
                mc=MC_ENUM),
    "C15": dict(level="model_checking", design="6 C15",
                traces=[dict(job="seq", spec="TraceSeq"), dict(job="que", spec="TraceQue"), dict(job="heap", spec="TraceHeap"),
                        dict(job="set", spec="TraceSet"), dict(job="map", spec="TraceMap"),
                        dict(job="clr", spec="TraceClear", together=True), dict(job="json", spec="TraceJSON", together=True)],
                mc=MC_RING[1:3] + MC_SEQ[:1] + MC_BT[:1] + MC_LH),
    "C16": dict(level="model_checking", design="6 C16",
                traces=[dict(job="alias", spec="TraceAlias", together=True)],
                mc=MC_ALIAS),
    "C17": dict(level="exploration", design="6 C17",
                traces=[dict(job="seq", spec="TraceSeq"), dict(job="que", spec="TraceQue"), dict(job="heap", spec="TraceHeap"),
                        dict(job="set", spec="TraceSet"), dict(job="map", spec="TraceMap"), dict(job="alg", spec="TraceAlg"),
                        dict(job="cur", spec="TraceCursor"), dict(job="enum", spec="TraceEnum"),
                        dict(job="json", spec="TraceJSON", together=True), dict(job="alias", spec="TraceAlias", together=True),
                        dict(job="exo", spec="TraceExo", together=True)],
                mc=[MC_SEQ[0], MC_SEQ[2], MC_ITER[4]], trusted=["fd-level capture of stdout/stderr (dup2), recover(), watchdog timer in the harness"]),
    "C18": dict(level="exploration", design="6 C18", race=True,
                traces=[dict(job="rd", spec="TraceReaders", race=True),
                        dict(job="seq", spec="TraceSeq"), dict(job="que", spec="TraceQue"), dict(job="heap", spec="TraceHeap"),
                        dict(job="set", spec="TraceSet"), dict(job="map", spec="TraceMap"), dict(job="alg", spec="TraceAlg"),
                        dict(job="cur", spec="TraceCursor"), dict(job="enum", spec="TraceEnum"), dict(job="alias", spec="TraceAlias", together=True),
                        dict(job="exo", spec="TraceExo", together=True)],
                mc=MC_READERS,
                trusted=["Go race detector (happens-before based)", "deep reflection fingerprint of the container"]),
    "C05": dict(level="model_checking", design="6 C05",
                traces=[dict(job="que", spec="TraceQue")],
                mc=MC_RING + MC_SQ),
}


# ---- fidelity: reachable canonical concrete states, implementation-shaped model vs real code -------------
def _fid(spec, cfg, arg):
    return dict(spec=spec, cfg=cfg + ".cfg", arg=arg)

FID_TREES = [_fid("MCRBT", "MCRBT_fid", "rbt:7"), _fid("MCAVL", "MCAVL_fid", "avl:7")] + \
            [_fid("MCBT", "MCBT%d_fid" % m, "bt:8:%d" % m) for m in (3, 4, 5, 6)]
FID_RING = [_fid("MCRing", "MCRing%d_fid" % c, "ring:%d" % c) for c in (1, 2, 3, 4)]
FID_HEAP = [_fid("MCHeap", "MCHeap_prio_fid", "heap:6:prio")]
PLAN["C01"]["fidelity"] = FID_TREES
PLAN["C07"]["fidelity"] = FID_TREES
PLAN["C05"]["fidelity"] = FID_RING
# ---- behaviours generated by TLC's simulator from the implementation-shaped models, replayed on the real code ----
def _sim(name, num, depth):
    return dict(spec=name.rstrip("0123456789"), cfg=name + ".cfg", num=num, depth=depth)

SIM_TREES = [_sim("SimRBT", 16, 160), _sim("SimAVL", 16, 160), _sim("SimBT3", 10, 200), _sim("SimBT4", 8, 200),
             _sim("SimBT5", 8, 200), _sim("SimBT8", 8, 200), _sim("SimBT12", 8, 200)]
for _p in ("C01", "C02", "C07"):
    PLAN[_p]["sim"] = SIM_TREES
PLAN["C05"]["sim"] = [_sim("SimRing7", 10, 120), _sim("SimRing12", 10, 120)]
PLAN["C06"]["sim"] = [_sim("SimHeap", 16, 80)]
PLAN["C06"]["fidelity"] = FID_HEAP
PLAN["C05"]["proofs"] = [dict(module="RingInv.tla", what="for every capacity >= 1: start, end in range, size = calculateSize(start, end, full), "
                              "full <=> size = capacity is an inductive invariant of the ring's index arithmetic (RingIdx, which MCRing shows the ring model refines)")]
PLAN["C15"]["proofs"] = PLAN["C05"]["proofs"]
PLAN["C03"]["proofs"] = [dict(module="ArrayCap.tla", what="for every length and argument count: length <= capacity is an inductive invariant of the array "
                              "list's growBy / shrink / Clear / load arithmetic")]
PLAN["C17"]["proofs"] = PLAN["C03"]["proofs"]
PLAN["C10"]["proofs"] = [dict(module="BidiInv.tla", what="for every key/value universe and map size: forward and inverse are inverse functions of each other "
                              "(hence one-to-one both ways) is an inductive invariant of the Put / Remove / Clear statements (BidiOps, shared with the TLC model BidiMap)")]
PLAN["C08"]["proofs"] = [dict(module="CursorIdx.tla", what="for every container size: the index iterator's index equals the abstract cursor position, stays in "
                              "-1..size, and Next/Prev/First/Last answer withinRange(index) (inductive invariant)"),
                         dict(module="CursorKept.tla", what="for every size and every modification of the container while the iterator is kept: after "
                              "Begin / End / First / Last the index iterator is again the abstract cursor over the CURRENT size (inductive invariant "
                              "with a stale flag; relative moves from a stale position are unspecified)")]

# ---- texts for MANIFEST.json -----------------------------------------------------------------------
_MC = ("TLC explores the bounded TLA+ models of the property's state machine exhaustively, and every (reachable concrete "
       "state, call, argument tuple) edge of the REAL code's own state graph in the same bounded universe is executed, logged and "
       "validated by TLC against the trace specification; beyond the bound, scripted histories at scale (containers of thousands "
       "of elements, argument lists of hundreds, thousands of calls on one instance) and seeded random histories are validated the "
       "same way. Exhaustive within the bound, sampled beyond it; by data independence a history over N distinct keys stands for all order-isomorphic ones.")
_NOTE = ("Trusted: TLC and the CommunityModules JSON reader; the Go harness (it executes what it logs; reflection is read-only); "
         "bounded universes as stated in the evidence file.")
_TECH = "explicit TLA+ spec; TLC model checking + TLC trace validation of events recorded from the real code (exhaustive bounded tour, scripted histories at scale, random histories, replay of TLC-simulated behaviours of the implementation-shaped models)"
for _k, _p in PLAN.items():
    _p.setdefault("claim", _MC if _p["level"] == "model_checking" else
                  "Exploration: every exported operation is executed in every reachable state of the bounded universes with every "
                  "argument class, in scripted histories at scale, in seeded hostile random histories, and (found by reflection) on "
                  "containers of pointer / interface / NaN / channel element types; TLC validates each recorded call against the obligation. "
                  "Unbounded argument values and schedules are sampled, not enumerated.")
    _p.setdefault("note", _NOTE + (" " + "; ".join(_p.get("trusted", [])) if _p.get("trusted") else ""))
    _p.setdefault("technique", _TECH)
PLAN["C18"]["technique"] = "TLA+ readers model checked by TLC; TLC trace validation of concurrent runs recorded under the Go race detector (all pairs of read-only operations) and of purity fingerprints on every read-only call"
PLAN["C17"]["technique"] = "TLC trace validation of every recorded call of every family (panic / time-out / fd 1,2 output fields) against the spec's SilentOK obligation"
