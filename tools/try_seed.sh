#!/bin/bash
# tools/try_seed.sh <seed-dir> <property> [more properties]  - applies <seed-dir>/patch.diff to a scratch worktree of
# /repo, confirms the existing suite still passes there, runs the listed checks against it (VERIF_REPO), removes it.
set -u
SEED=$1; shift
export GOFLAGS=-mod=mod GOPROXY=off GOSUMDB=off GOTOOLCHAIN=local
W=/tmp/seedwt-$$
git -C /repo worktree add -q --detach $W ${BASE:-HEAD} || exit 2
trap 'git -C /repo worktree remove --force $W >/dev/null 2>&1; rm -rf $W' EXIT
( cd $W && git apply $SEED/patch.diff ) || { echo "PATCH DOES NOT APPLY"; exit 2; }
( cd $W && go build ./... && go test -vet=off -count=1 ./... 2>&1 | grep -v '^ok\|no test files' | head -5 )
echo "suite: done (lines above, if any, are failures)"
for P in "$@"; do
  out=$(cd ${VERIF_ROOT:-/verif} && VERIF_REPO=$W timeout ${SEED_TIMEOUT:-900} bin/check $P --tier ${TIER:-quick} 2>&1)
  rc=$?
  echo "== $P rc=$rc: $(echo "$out" | grep -E 'VIOLATION|KNOWN|INFRA' | head -2 | tr '\n' ' ') $(echo "$out" | tail -1)"
  echo "$out" | grep -A4 "first rejected" | sed -n 2,4p | cut -c1-400
done
