#!/usr/bin/env python3
"""Writes MANIFEST.json from tools/plan.py (one check per property in PLAN; the rest under not_applicable)."""
import json, os, sys
ROOT = os.path.dirname(os.path.dirname(os.path.abspath(__file__)))
sys.path.insert(0, os.path.join(ROOT, "tools"))
import plan as P
props = [json.loads(l) for l in open(os.path.join(ROOT, "properties.jsonl"))]
checks, na = [], []
for pr in props:
    pid = pr["id"]
    if pid not in P.PLAN:
        na.append({"property_id": pid, "reason": "check not built yet"})
        continue
    p = P.PLAN[pid]
    checks.append({
        "property_id": pid,
        "quick_cmd": "bin/check %s --tier quick" % pid,
        "thorough_cmd": "bin/check %s --tier thorough" % pid,
        "evidence_file": "evidence/%s.json" % pid,
        "replay_cmd_template": "bin/check --replay {path}",
        "engine": "tla-trace-validation",
        "level_claimed": {"category": p["level"], "text": p["claim"], "design_ref": "DESIGN.md section " + p["design"]},
        "level_note": p["note"],
        "technique": p["technique"],
    })
m = {"version": 1, "setup_cmd": "bin/setup",
     "hooks": {"guard": "verif",
               "enable": "no source hooks: the harness (module verif/harness, replace => /repo) drives the public API and reads unexported state by reflection; nothing in /repo is built differently",
               "baseline_off_cmd": "cd /repo && GOFLAGS=-mod=mod go test -vet=off -count=1 ./...",
               "source_commits": [], "add_only": True},
     "engines": [{"name": "tla-trace-validation", "path": "bin/check",
                  "serves_properties": [c["property_id"] for c in checks],
                  "kind_free_text": "explicit TLA+ specifications (spec/*.tla); TLC model-checks the bounded abstract and implementation-shaped models and validates ndjson traces recorded from the real containers by the Go harness (harness/) against the trace specifications"}],
     "checks": checks,
     "notes": "verdicts come only from TLC rejecting events recorded from the real code; known_findings.json lists repaired defects (status fixed: they suppress nothing) and one known finding that is not repaired (F9, C11: value containers of uint8 serialise as a base64 string; the check prints KNOWN-FINDING and still reports any other rejection); TLC also generates behaviours of the implementation-shaped models with its simulator, which are replayed on the real code (DESIGN.md 12.5)",
     "not_applicable": na}
json.dump(m, open(os.path.join(ROOT, "MANIFEST.json"), "w"), indent=1)
print(len(checks), "checks,", len(na), "not applicable")
