package main

// Family SHAPE: balance of large trees (C07).  Sorted, reverse-sorted, zig-zag, random and churn
// histories with up to thousands of keys.  Every Get / Put / Remove is logged with the tree size
// before it and the comparator calls it made; at checkpoints the whole exported structure is logged
// as a flat node array with per-node path lengths, which TLC checks locally (linear in n).

import (
	"math/rand"

	"github.com/emirpasic/gods/v2/maps/treebidimap"
	"github.com/emirpasic/gods/v2/maps/treemap"
	"github.com/emirpasic/gods/v2/sets/treeset"
	"github.com/emirpasic/gods/v2/trees/avltree"
	"github.com/emirpasic/gods/v2/trees/btree"
	rbt "github.com/emirpasic/gods/v2/trees/redblacktree"
)

func init() {
	jobs["shape"] = jobShape
	kindsOf["shape"] = []string{"redblacktree", "avltree", "btree", "treemap", "treeset", "treebidimap"}
}

type bigTree struct {
	kind string
	m    int
	put  func(k int)
	rem  func(k int)
	get  func(k int)
	size func() int
	flat func() Ev // checkpoint
}

func newBigTree(kind string, m int) *bigTree {
	f := cmpInt("nat")
	b := &bigTree{kind: kind, m: m}
	none := func() Ev {
		return Ev{"t": "", "bin": [][]int{}, "bt": [][]int{}, "ch": [][]int{}, "ok": true, "height": 0}
	}
	switch kind {
	case "redblacktree":
		t := rbt.NewWith[int, V](f)
		b.put, b.rem, b.get, b.size = func(k int) { t.Put(k, V(k)) }, t.Remove, func(k int) { t.Get(k) }, t.Size
		b.flat = func() Ev {
			e := none()
			e["t"] = "rb"
			idx := map[*rbt.Node[int, V]]int{}
			var order []*rbt.Node[int, V]
			var walk func(n *rbt.Node[int, V], d int)
			walk = func(n *rbt.Node[int, V], d int) {
				if n == nil || d > 4000 || idx[n] != 0 {
					if n != nil {
						e["ok"] = false
					}
					return
				}
				idx[n] = len(order) + 1
				order = append(order, n)
				walk(n.Left, d+1)
				walk(n.Right, d+1)
			}
			walk(t.Root, 0)
			hmax, hmin := make([]int, len(order)+1), make([]int, len(order)+1)
			for i := len(order) - 1; i >= 0; i-- { // children come after parents in pre-order
				n := order[i]
				l, r := idx[n.Left], idx[n.Right]
				hmax[i+1] = 1 + max(hmax[l], hmax[r])
				hmin[i+1] = 1 + min(hmin[l], hmin[r])
			}
			rows := make([][]int, 0, len(order))
			for i, n := range order {
				rows = append(rows, []int{n.Key, idx[n.Left], idx[n.Right], idx[n.Parent], hmax[i+1], hmin[i+1]})
			}
			e["bin"] = rows
			return e
		}
	case "avltree":
		t := avltree.NewWith[int, V](f)
		b.put, b.rem, b.get, b.size = func(k int) { t.Put(k, V(k)) }, t.Remove, func(k int) { t.Get(k) }, t.Size
		b.flat = func() Ev {
			e := none()
			e["t"] = "avl"
			idx := map[*avltree.Node[int, V]]int{}
			var order []*avltree.Node[int, V]
			var walk func(n *avltree.Node[int, V], d int)
			walk = func(n *avltree.Node[int, V], d int) {
				if n == nil || d > 4000 || idx[n] != 0 {
					if n != nil {
						e["ok"] = false
					}
					return
				}
				idx[n] = len(order) + 1
				order = append(order, n)
				walk(n.Children[0], d+1)
				walk(n.Children[1], d+1)
			}
			walk(t.Root, 0)
			hmax, hmin := make([]int, len(order)+1), make([]int, len(order)+1)
			for i := len(order) - 1; i >= 0; i-- {
				n := order[i]
				l, r := idx[n.Children[0]], idx[n.Children[1]]
				hmax[i+1] = 1 + max(hmax[l], hmax[r])
				hmin[i+1] = 1 + min(hmin[l], hmin[r])
			}
			rows := make([][]int, 0, len(order))
			for i, n := range order {
				rows = append(rows, []int{n.Key, idx[n.Children[0]], idx[n.Children[1]], idx[n.Parent], hmax[i+1], hmin[i+1]})
			}
			e["bin"] = rows
			return e
		}
	case "btree":
		t := btree.NewWith[int, V](m, f)
		b.put, b.rem, b.get, b.size = func(k int) { t.Put(k, V(k)) }, t.Remove, func(k int) { t.Get(k) }, t.Size
		b.flat = func() Ev {
			e := none()
			e["t"] = "bt"
			idx := map[*btree.Node[int, V]]int{}
			var order []*btree.Node[int, V]
			depth := map[*btree.Node[int, V]]int{}
			var walk func(n *btree.Node[int, V], d int)
			walk = func(n *btree.Node[int, V], d int) {
				if n == nil || d > 200 || idx[n] != 0 {
					if n != nil {
						e["ok"] = false
					}
					return
				}
				idx[n] = len(order) + 1
				depth[n] = d
				order = append(order, n)
				for _, ch := range n.Children {
					walk(ch, d+1)
				}
			}
			walk(t.Root, 1)
			rows := make([][]int, 0, len(order)) // [number of keys, number of children, parent, depth]
			chs := make([][]int, 0, len(order))
			for _, n := range order {
				rows = append(rows, []int{len(n.Entries), len(n.Children), idx[n.Parent], depth[n]})
				cs := []int{}
				for _, ch := range n.Children {
					cs = append(cs, idx[ch])
				}
				chs = append(chs, cs)
			}
			e["bt"], e["ch"], e["height"] = rows, chs, t.Height()
			return e
		}
	case "treemap":
		t := treemap.NewWith[int, V](f)
		b.put, b.rem, b.get, b.size, b.flat = func(k int) { t.Put(k, V(k)) }, t.Remove, func(k int) { t.Get(k) }, t.Size, none
	case "treeset":
		t := treeset.NewWith[int](f)
		b.put, b.rem, b.get, b.size, b.flat = func(k int) { t.Add(k) }, func(k int) { t.Remove(k) }, func(k int) { t.Contains(k) }, t.Size, none
	case "treebidimap":
		t := treebidimap.NewWith[int, V](f, cmpV("nat"))
		b.put, b.rem, b.get, b.size, b.flat = func(k int) { t.Put(k, V(k)) }, t.Remove, func(k int) { t.Get(k) }, t.Size, none
	}
	return b
}

func shapeRun(j *jobCtx, kind string, m int, pattern string, n int, r *rand.Rand) {
	b := newBigTree(kind, m)
	tree := treeKind(kind)
	if kind == "treeset" {
		tree = "rb"
	}
	cfg := Ev{"tree": tree, "m": m, "pattern": pattern}
	seg := 1
	op := func(name string, k int, f func(int)) {
		e := Ev{"fam": "shape", "kind": kind, "cfg": cfg, "op": name, "rs": seg, "timeout": false, "obsbad": false, "k": k,
			"n": b.size(), "shape": 0, "size": 0}
		seg = 0
		ci := invoke(e, func() { f(k) })
		e["panic"], e["pmsg"], e["out"], e["cmps"] = ci.Panic, ci.PMsg, ci.Out, ci.Cmps
		emit(e)
	}
	check := func() {
		e := Ev{"fam": "shape", "kind": kind, "cfg": cfg, "op": "Shape", "rs": 0, "timeout": false, "obsbad": false, "k": 0,
			"n": b.size(), "cmps": 0, "size": b.size(), "out": 0, "pmsg": ""}
		ci := invoke(e, func() { e["shape"] = b.flat() })
		e["panic"] = ci.Panic
		if ci.Panic {
			e["obsbad"] = true
			e["shape"] = 0
		}
		emit(e)
	}
	key := func(i int) int {
		switch pattern {
		case "asc":
			return i
		case "desc":
			return n - i
		case "zigzag":
			if i%2 == 0 {
				return i / 2
			}
			return n - i/2
		}
		return r.Intn(4 * n)
	}
	every := n / 8
	if every < 16 {
		every = 16
	}
	for i := 0; i < n; i++ {
		op("Put", key(i), b.put)
		if i%7 == 3 {
			op("Get", key(r.Intn(i+1)), b.get)
		}
		if (i+1)%every == 0 {
			check()
		}
	}
	check()
	// removal phase: same order for the structured patterns, random for the others; then churn
	for i := 0; i < n; i++ {
		if pattern == "churn" && i%3 == 0 {
			op("Put", r.Intn(4*n), b.put)
		}
		op("Remove", key(i), b.rem)
		if i%5 == 2 {
			op("Get", key(r.Intn(n)), b.get)
		}
		if (i+1)%every == 0 {
			check()
		}
		if i > (3*n)/4 && pattern != "churn" {
			break
		}
	}
	check()
	distinct["shape|"+kind+"|"+itoa(m)+"|"+pattern+"|"+itoa(n)] = struct{}{}
}

func jobShape(j *jobCtx) {
	sizes := []int{64, 300, 1024}
	if !j.quick() {
		sizes = []int{64, 300, 1024, 4096}
	}
	for _, k := range kindsOf["shape"] {
		if !j.want(k) {
			continue
		}
		ms := []int{0}
		if k == "btree" {
			ms = []int{3, 4, 5, 8, 32}
			if !j.quick() {
				ms = []int{3, 4, 5, 6, 7, 8, 16, 32}
			}
		}
		if k == "btree" {
			// wide nodes and three levels (tens of thousands of keys): what a node can spare or must borrow there cannot
			// happen in the small orders; fixed cost, first
			type wide struct {
				m, n int
				pat  string
			}
			ws := []wide{{200, 60000, "asc"}, {200, 40000, "random"}, {129, 30000, "churn"}}
			if !j.quick() {
				ws = append(ws, wide{256, 80000, "desc"}, wide{128, 40000, "zigzag"}, wide{1000, 200000, "random"})
			}
			for _, w := range ws {
				shapeRun(j, k, w.m, w.pat, w.n, j.r)
				j.states++
			}
		}
		for _, m := range ms {
			for _, pat := range []string{"asc", "desc", "zigzag", "random", "churn"} {
				for _, n := range sizes {
					if budgetExceeded() {
						extraStats["tour_truncated"] = true
						return
					}
					if j.quick() && n == 1024 && (pat == "random" || pat == "zigzag") && k != "redblacktree" && k != "avltree" {
						continue
					}
					shapeRun(j, k, m, pat, n, j.r)
					j.states++
				}
			}
		}
	}
}
