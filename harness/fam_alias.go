package main

// Family ALIAS: returned slices are snapshots, argument slices are copied, GetSortedValues does
// not disturb the container (C16).  All 21 kinds, every reachable state of small universes.

import (
	"reflect"

	"github.com/emirpasic/gods/v2/containers"
	"github.com/emirpasic/gods/v2/lists/arraylist"
	"github.com/emirpasic/gods/v2/lists/doublylinkedlist"
	"github.com/emirpasic/gods/v2/lists/singlylinkedlist"
	"github.com/emirpasic/gods/v2/sets/hashset"
	"github.com/emirpasic/gods/v2/sets/linkedhashset"
	"github.com/emirpasic/gods/v2/sets/treeset"
	"github.com/emirpasic/gods/v2/trees/binaryheap"
)

func init() {
	jobs["alias"] = jobAlias
	kindsOf["alias"] = jsonKinds
}

func poison(t reflect.Type, n int) reflect.Value {
	v := reflect.New(t).Elem()
	switch t.Kind() {
	case reflect.Int:
		v.SetInt(int64(900 + n))
	case reflect.Struct: // PE
		v.Field(0).SetInt(int64(90 + n))
		v.Field(1).SetInt(9)
	}
	return v
}

// write to every element of the slice and to its spare capacity
func scribble(s reflect.Value) (spare int) {
	if s.Kind() != reflect.Slice || s.IsNil() {
		return 0
	}
	full := s.Slice(0, s.Cap())
	for i := 0; i < full.Len(); i++ {
		full.Index(i).Set(poison(s.Type().Elem(), i%7))
	}
	return s.Cap() - s.Len()
}

func sliceAny(s reflect.Value) []any {
	out := []any{}
	if s.Kind() != reflect.Slice {
		return out
	}
	for i := 0; i < s.Len(); i++ {
		e := s.Index(i)
		switch e.Kind() {
		case reflect.Int:
			out = append(out, int(e.Int()))
		case reflect.Struct:
			out = append(out, int(10*e.Field(0).Int()+e.Field(1).Int()))
		}
	}
	return out
}

func callSlice(x Inst, method string) (reflect.Value, bool) {
	m := reflect.ValueOf(x.Target()).MethodByName(method)
	if !m.IsValid() {
		return reflect.Value{}, false
	}
	return m.Call(nil)[0], true
}

func aliasBase(x Inst, op string) Ev {
	return Ev{"fam": "alias", "kind": x.Kind(), "cfg": jsonCfg(x), "op": op, "rs": 1, "timeout": false, "obsbad": false,
		"method": "", "before": []any{}, "after": []any{}, "snap0": []any{}, "snap1": []any{}, "result": []any{}, "pure": true,
		"spare": 0, "mutop": "", "vals": []any{}}
}

func aliasState(j *jobCtx, u Universe, path []Call) {
	for _, method := range []string{"Values", "Keys"} {
		// (1) Scribble: writing to a returned slice never changes the container
		x := replay(u, path)
		if _, ok := callSlice(x, method); !ok {
			continue
		}
		e := aliasBase(x, "Scribble")
		e["method"] = method
		e["before"] = contentOf(x)
		obs0, _ := safeObserve(x)
		ci := invoke(e, func() {
			s, _ := callSlice(x, method)
			e["spare"] = scribble(s)
		})
		e["panic"], e["pmsg"], e["out"] = ci.Panic, ci.PMsg, ci.Out
		e["after"] = contentOf(x)
		obs1, _ := safeObserve(x)
		e["pure"] = reflect.DeepEqual(normObs(x, obs0), normObs(x, obs1))
		emit(e)
		distinct["al|"+x.Kind()+"|scribble|"+method] = struct{}{}

		// (2) Mutate: later changes to the container never change a slice returned earlier
		calls := u.Calls(replay(u, path))
		nm := 0
		for _, c := range calls {
			if !x.Mutates(c.Op) || nm >= 6 {
				continue
			}
			nm++
			y := replay(u, path)
			e := aliasBase(y, "Mutate")
			e["method"], e["mutop"] = method, c.Op
			var s reflect.Value
			ci := invoke(e, func() {
				s, _ = callSlice(y, method)
				// the caller owns the returned slice up to its capacity (append writes there): the cells beyond the length
				// are written first, and the whole slice - length and spare capacity - must then stay what it is
				if s.Kind() == reflect.Slice && !s.IsNil() {
					full := s.Slice(0, s.Cap())
					for i := s.Len(); i < full.Len(); i++ {
						full.Index(i).Set(poison(s.Type().Elem(), i%7))
					}
					s = full
				}
				e["snap0"] = sliceAny(s)
				y.Do(c)
				// a second mutation, so that memory freed by the first can be reused
				y.Do(c)
			})
			e["panic"], e["pmsg"], e["out"] = ci.Panic, ci.PMsg, ci.Out
			if s.IsValid() {
				e["snap1"] = sliceAny(s)
			}
			emit(e)
			distinct["al|"+y.Kind()+"|mutate|"+method+"|"+c.Op] = struct{}{}
		}
	}
	// (3) argument slices are copied
	argOps(j, u, path, argSlices())
	// (4) GetSortedValues / GetSortedValuesFunc
	sortedOps(u, path)
}

// caller-owned argument slices with spare capacity: short, 16 and 40 elements
func argSlices() [][]int {
	var out [][]int
	for _, lc := range [][2]int{{3, 8}, {16, 40}, {40, 64}, {1, 1}} {
		s := make([]int, lc[0], lc[1])
		for i := range s {
			s[i] = (i*5 + 3) % 7
		}
		out = append(out, s)
	}
	return out
}

// one caller-owned slice of 70000 values (beyond any 16-bit bulk threshold), exactly full and with spare capacity
func hugeArgSlices() [][]int {
	var out [][]int
	for _, lc := range [][2]int{{70000, 70000}, {66000, 70000}, {1, 1}} {
		s := make([]int, lc[0], lc[1])
		for i := range s {
			s[i] = (i*5 + 3) % 7
		}
		out = append(out, s)
	}
	return out
}

func argOps(j *jobCtx, u Universe, path []Call, slices [][]int, only ...string) {
	x := replay(u, path)
	type argCall struct {
		name string
		run  func(arg []int) Inst
	}
	var acs []argCall
	switch t := x.(type) {
	case *seqInst:
		acs = append(acs,
			argCall{"New", func(a []int) Inst { return &seqInst{kind: t.kind, l: newList(t.kind, a...), probe: t.probe} }},
			argCall{"Add", func(a []int) Inst { y := replay(u, path).(*seqInst); y.l.Add(a...); return y }},
			argCall{"Insert0", func(a []int) Inst { y := replay(u, path).(*seqInst); y.l.Insert(0, a...); return y }},
			argCall{"InsertEnd", func(a []int) Inst { y := replay(u, path).(*seqInst); y.l.Insert(y.l.Size(), a...); return y }})
		if t.kind != "arraylist" {
			acs = append(acs,
				argCall{"Append", func(a []int) Inst { y := replay(u, path).(*seqInst); y.l.(appender).Append(a...); return y }},
				argCall{"Prepend", func(a []int) Inst { y := replay(u, path).(*seqInst); y.l.(appender).Prepend(a...); return y }})
		}
	case *setInst:
		acs = append(acs,
			argCall{"New", func(a []int) Inst {
				return &setInst{kind: t.kind, cmp: t.cmp, s: newSet(t.kind, t.cmpF, a...), probe: t.probe, cmpF: t.cmpF}
			}},
			argCall{"Add", func(a []int) Inst { y := replay(u, path).(*setInst); y.s.Add(a...); return y }})
	case *heapInst:
		if t.h != nil {
			acs = append(acs, argCall{"Push", nil})
		}
	}
	for _, ac := range acs {
		if len(only) > 0 && ac.name != only[0] {
			continue
		}
		e := aliasBase(x, "ScribbleArg")
		e["method"] = ac.name
		var y Inst
		var ci callInfo
		if ac.run == nil { // heap Push with PE elements
			arg := make([]PE, 3, 8)
			arg[0], arg[1], arg[2] = PE{3, 1}, PE{1, 1}, PE{2, 1}
			h := replay(u, path).(*heapInst)
			y = h
			ci = invoke(e, func() {
				h.h.Push(arg...)
				e["before"] = contentOf(h)
				scribble(reflect.ValueOf(arg))
			})
		} else {
			for ai, arg := range slices {
				if ai > 0 {
					e = aliasBase(x, "ScribbleArg")
					e["method"] = ac.name
				}
				e["spare"] = cap(arg) - len(arg)
				arg := arg
				ci = invoke(e, func() {
					y = ac.run(arg)
					e["before"] = contentOf(y)
					scribble(reflect.ValueOf(arg))
				})
				if ai < len(slices)-1 {
					e["panic"], e["pmsg"], e["out"] = ci.Panic, ci.PMsg, ci.Out
					if y != nil && !ci.Panic {
						e["after"] = contentOf(y)
					}
					emit(e)
				}
			}
		}
		e["panic"], e["pmsg"], e["out"] = ci.Panic, ci.PMsg, ci.Out
		if y != nil && !ci.Panic {
			e["after"] = contentOf(y)
		}
		emit(e)
		distinct["al|"+x.Kind()+"|arg|"+ac.name] = struct{}{}
	}
}

func sortedOps(u Universe, path []Call) {
	x := replay(u, path)
	e := aliasBase(x, "GetSorted")
	e["before"] = contentOf(x)
	fp0 := fullFP(x)
	obs0, _ := safeObserve(x)
	var res []any
	vals := []any{}
	ci := invoke(e, func() {
		switch t := x.Target().(type) {
		case *arraylist.List[int]:
			res, vals = gsv[int](t), anys(t.Values())
		case *singlylinkedlist.List[int]:
			res, vals = gsv[int](t), anys(t.Values())
		case *doublylinkedlist.List[int]:
			res, vals = gsv[int](t), anys(t.Values())
		case *hashset.Set[int]:
			res, vals = gsv[int](t), anys(t.Values())
		case *treeset.Set[int]:
			res, vals = gsv[int](t), anys(t.Values())
		case *linkedhashset.Set[int]:
			res, vals = gsv[int](t), anys(t.Values())
		case containers.Container[int]: // stacks, queues, ring
			res, vals = gsv[int](t), anys(t.Values())
		case containers.Container[V]: // maps and trees
			for _, v := range containers.GetSortedValues[V](t) {
				res = append(res, int(v))
			}
			for _, v := range t.Values() {
				vals = append(vals, int(v))
			}
			e["method"] = "GetSortedValues"
		case *binaryheap.Heap[PE]:
			for _, v := range containers.GetSortedValuesFunc[PE](t, cmpPE("prioid")) {
				res = append(res, encPE(v))
			}
			for _, v := range t.Values() {
				vals = append(vals, encPE(v))
			}
			e["method"] = "GetSortedValuesFunc"
		case containers.Container[PE]:
			for _, v := range containers.GetSortedValuesFunc[PE](t, cmpPE("prioid")) {
				res = append(res, encPE(v))
			}
			for _, v := range t.Values() {
				vals = append(vals, encPE(v))
			}
			e["method"] = "GetSortedValuesFunc"
		}
	})
	if res == nil {
		res = []any{}
	}
	e["panic"], e["pmsg"], e["out"] = ci.Panic, ci.PMsg, ci.Out
	e["result"], e["vals"] = res, vals
	e["after"] = contentOf(x)
	obs1, _ := safeObserve(x)
	e["pure"] = fp0 == fullFP(x) && reflect.DeepEqual(normObs(x, obs0), normObs(x, obs1))
	emit(e)
	distinct["al|"+x.Kind()+"|sorted"] = struct{}{}
}

func anys(xs []int) []any {
	out := []any{}
	for _, x := range xs {
		out = append(out, x)
	}
	return out
}

// both helper functions; their results must agree
func gsv[T int](c containers.Container[T]) []any {
	a := containers.GetSortedValues[T](c)
	b := containers.GetSortedValuesFunc[T](c, func(x, y T) int {
		switch {
		case x < y:
			return -1
		case x > y:
			return 1
		}
		return 0
	})
	// comparators are only required to answer negative / zero / positive: differences of any magnitude, and a descending one
	m := containers.GetSortedValuesFunc[T](c, func(x, y T) int { return int(x-y) * 3 })
	d := containers.GetSortedValuesFunc[T](c, func(x, y T) int { return int(y-x) * 5 })
	out := []any{}
	for i, v := range a {
		if i >= len(b) || b[i] != v || i >= len(m) || m[i] != v || i >= len(d) || d[len(d)-1-i] != v {
			out = append(out, -12345) // disagreement between the helpers
		}
		out = append(out, int(v))
	}
	if len(a) != len(b) || len(a) != len(m) || len(a) != len(d) {
		out = append(out, -12345)
	}
	return out
}

func jobAlias(j *jobCtx) {
	for _, u := range jsonUniverses(j) {
		x0 := u.New()
		limit := 40
		if !j.quick() {
			limit = 400
		}
		paths := enumStates(u, limit, isMut(x0))
		if bp := bigStatePath(x0); bp != nil {
			paths = append(paths, bp)
		}
		// huge argument slices first (fixed cost): into the empty container and into the first non-empty state
		for pi, p := range paths {
			if pi == 0 {
				argOps(j, u, p, hugeArgSlices())
			} else if pi == 1 {
				argOps(j, u, p, hugeArgSlices(), "Add")
			}
		}
		for _, p := range paths {
			if budgetExceeded() {
				extraStats["tour_truncated"] = true
				return
			}
			j.states++
			aliasState(j, u, p)
		}
	}
}
