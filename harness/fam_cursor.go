package main

// Family CUR: the 18 iterator types as cursors over positions -1..n (C08).
// For every reachable container state of a bounded universe (enumerated breadth first on the real
// code) a walk takes every iterator call from every cursor position, both sentinels included.

import (
	"cmp"
	"math/rand"

	"github.com/emirpasic/gods/v2/lists/arraylist"
	"github.com/emirpasic/gods/v2/lists/doublylinkedlist"
	"github.com/emirpasic/gods/v2/lists/singlylinkedlist"
	"github.com/emirpasic/gods/v2/maps/linkedhashmap"
	"github.com/emirpasic/gods/v2/maps/treebidimap"
	"github.com/emirpasic/gods/v2/maps/treemap"
	"github.com/emirpasic/gods/v2/queues/arrayqueue"
	"github.com/emirpasic/gods/v2/queues/circularbuffer"
	"github.com/emirpasic/gods/v2/queues/linkedlistqueue"
	"github.com/emirpasic/gods/v2/sets/linkedhashset"
	"github.com/emirpasic/gods/v2/sets/treeset"
	"github.com/emirpasic/gods/v2/stacks/arraystack"
	"github.com/emirpasic/gods/v2/stacks/linkedliststack"
	"github.com/emirpasic/gods/v2/trees/avltree"
	"github.com/emirpasic/gods/v2/trees/btree"
	rbt "github.com/emirpasic/gods/v2/trees/redblacktree"
)

// pred is a member of the predicate family shared with AbsCursor.tla (bound by name and parameters)
type pred struct {
	Name string `json:"name"`
	M    int    `json:"m"`
	R    int    `json:"r"`
	I    int    `json:"i"`
}

func (p pred) holds(idxOrKey, val int) bool {
	switch p.Name {
	case "true":
		return true
	case "false":
		return false
	case "keymod":
		return mod(idxOrKey, p.M) == p.R
	case "valmod":
		return mod(val, p.M) == p.R
	case "index":
		return idxOrKey == p.I
	}
	return false
}

func mod(a, m int) int { return ((a % m) + m) % m }

type cursor struct {
	keyed                   bool // Key()/Value() iterator (else Index()/Value())
	reverse                 bool // has Prev/End/Last/PrevTo
	next, prev, first, last func() bool
	begin, end              func()
	nextTo, prevTo          func(p pred) bool
	read                    func() (int, int) // (index or key, value)
}

type idxFwd[T any] interface {
	Next() bool
	Begin()
	First() bool
	NextTo(func(int, T) bool) bool
	Value() T
	Index() int
}
type idxFull[T any] interface {
	idxFwd[T]
	Prev() bool
	End()
	Last() bool
	PrevTo(func(int, T) bool) bool
}
type keyFull[K, W any] interface {
	Next() bool
	Prev() bool
	Begin()
	End()
	First() bool
	Last() bool
	NextTo(func(K, W) bool) bool
	PrevTo(func(K, W) bool) bool
	Key() K
	Value() W
}

func wrapIdxFwd[T any](it idxFwd[T], enc func(T) int) *cursor {
	return &cursor{next: it.Next, first: it.First, begin: it.Begin,
		nextTo: func(p pred) bool { return it.NextTo(func(i int, v T) bool { curHook(); return p.holds(i, enc(v)) }) },
		read:   func() (int, int) { return it.Index(), enc(it.Value()) }}
}
func wrapIdx[T any](it idxFull[T], enc func(T) int) *cursor {
	c := wrapIdxFwd[T](it, enc)
	c.reverse = true
	c.prev, c.last, c.end = it.Prev, it.Last, it.End
	c.prevTo = func(p pred) bool { return it.PrevTo(func(i int, v T) bool { curHook(); return p.holds(i, enc(v)) }) }
	return c
}
func wrapKey(it keyFull[int, V]) *cursor {
	return &cursor{keyed: true, reverse: true, next: it.Next, prev: it.Prev, first: it.First, last: it.Last,
		begin: it.Begin, end: it.End,
		nextTo: func(p pred) bool { return it.NextTo(func(k int, v V) bool { curHook(); return p.holds(k, int(v)) }) },
		prevTo: func(p pred) bool { return it.PrevTo(func(k int, v V) bool { curHook(); return p.holds(k, int(v)) }) },
		read:   func() (int, int) { return it.Key(), int(it.Value()) }}
}

// companion activity (every other walk): a SECOND iterator over the same container moves and reads, and the container is
// read, between the calls of the iterator under test, between its move and its read, and from inside its NextTo / PrevTo
// predicates.  Iterators are independent cursors and reads are pure: nothing the iterator under test answers may change.
var curHook = func() {}
var curWalks = 0

func makeCompanion(x Inst, r *rand.Rand) func() {
	var other *cursor
	if gi := invoke(Ev{"op": "Iterator", "kind": x.Kind()}, func() { other, _ = makeCursor(x) }); gi.Panic || other == nil {
		return func() {}
	}
	return func() {
		ok := false
		switch k := r.Intn(8); {
		case k < 3:
			ok = other.next()
		case k == 3 && other.reverse:
			ok = other.prev()
		case k == 4:
			ok = other.first()
		case k == 5 && other.reverse:
			ok = other.last()
		case k == 6:
			other.begin()
		default:
			safeObserve(x) // Values / Keys / String / Size / lookups of the container itself
		}
		if ok {
			other.read()
		}
	}
}

func idInt(v int) int { return v }
func encPE(v PE) int  { return 10*v.P + v.ID }

// makeCursor returns a fresh iterator of the instance's container and the container's sequence
// (<<index or key, value>> pairs of Values()/Keys())
func makeCursor(x Inst) (*cursor, [][]int) {
	seqIdx := func(vals []int) [][]int {
		out := [][]int{}
		for i, v := range vals {
			out = append(out, []int{i, v})
		}
		return out
	}
	switch t := x.Target().(type) {
	case *arraylist.List[int]:
		return wrapIdx[int](t.Iterator(), idInt), seqIdx(t.Values())
	case *singlylinkedlist.List[int]:
		return wrapIdxFwd[int](t.Iterator(), idInt), seqIdx(t.Values())
	case *doublylinkedlist.List[int]:
		it := t.Iterator()
		return wrapIdx[int](&it, idInt), seqIdx(t.Values())
	case *arraystack.Stack[int]:
		return wrapIdx[int](t.Iterator(), idInt), seqIdx(t.Values())
	case *linkedliststack.Stack[int]:
		return wrapIdxFwd[int](t.Iterator(), idInt), seqIdx(t.Values())
	case *arrayqueue.Queue[int]:
		return wrapIdx[int](t.Iterator(), idInt), seqIdx(t.Values())
	case *linkedlistqueue.Queue[int]:
		return wrapIdxFwd[int](t.Iterator(), idInt), seqIdx(t.Values())
	case *circularbuffer.Queue[int]:
		return wrapIdx[int](t.Iterator(), idInt), seqIdx(t.Values())
	case *treeset.Set[int]:
		it := t.Iterator()
		return wrapIdx[int](&it, idInt), seqIdx(t.Values())
	case *linkedhashset.Set[int]:
		it := t.Iterator()
		return wrapIdx[int](&it, idInt), seqIdx(t.Values())
	case ordSet[float64]: // TreeSet of floats behind codes (fam_dflt.go)
		it := t.ts().Iterator()
		return wrapIdx[float64](&it, t.c.enc), seqIdx(t.Values())
	case *treemap.Map[int, V]:
		return wrapKey(t.Iterator()), seqKV(t.Keys(), t.Get)
	case *linkedhashmap.Map[int, V]:
		return wrapKey(t.Iterator()), seqKV(t.Keys(), t.Get)
	case *treebidimap.Map[int, V]:
		return wrapKey(t.Iterator()), seqKV(t.Keys(), t.Get)
	case *rbt.Tree[int, V]:
		return wrapKey(t.Iterator()), seqKV(t.Keys(), t.Get)
	case *avltree.Tree[int, V]:
		return wrapKey(t.Iterator()), seqKV(t.Keys(), t.Get)
	case *btree.Tree[int, V]:
		return wrapKey(t.Iterator()), seqKV(t.Keys(), t.Get)
	}
	// maps and trees made by New() (built-in comparator), float keys incl. NaN behind codes (fam_dflt.go)
	if c, sq := dfltCursor(x.Target()); c != nil {
		return c, sq
	}
	if h, ok := x.(*heapInst); ok {
		pv := func(vs []PE) [][]int {
			out := [][]int{}
			for i, v := range vs {
				out = append(out, []int{i, encPE(v)})
			}
			return out
		}
		if h.h != nil {
			return wrapIdx[PE](h.h.Iterator(), encPE), pv(h.h.Values())
		}
		return wrapIdx[PE](h.q.Iterator(), encPE), pv(h.q.Values())
	}
	die("makeCursor: unsupported %T", x.Target())
	return nil, nil
}

func wrapKeyCoded[K cmp.Ordered](it keyFull[K, V], c *codec[K]) *cursor {
	return &cursor{keyed: true, reverse: true, next: it.Next, prev: it.Prev, first: it.First, last: it.Last,
		begin: it.Begin, end: it.End,
		nextTo: func(p pred) bool {
			return it.NextTo(func(k K, v V) bool { curHook(); return p.holds(c.enc(k), int(v)) })
		},
		prevTo: func(p pred) bool {
			return it.PrevTo(func(k K, v V) bool { curHook(); return p.holds(c.enc(k), int(v)) })
		},
		read: func() (int, int) { return c.enc(it.Key()), int(it.Value()) }}
}

func dfltCursor(target any) (*cursor, [][]int) {
	var f ordMap[float64]
	switch t := target.(type) {
	case ordMap[float64]:
		f = t
	case ordBidi[float64]:
		f = t.ordMap
	default:
		return nil, nil
	}
	var it keyFull[float64, V]
	switch m := f.m.(type) {
	case *treemap.Map[float64, V]:
		it = m.Iterator()
	case *treebidimap.Map[float64, V]:
		it = m.Iterator()
	case *rbt.Tree[float64, V]:
		it = m.Iterator()
	case *avltree.Tree[float64, V]:
		it = m.Iterator()
	case *btree.Tree[float64, V]:
		it = m.Iterator()
	default:
		return nil, nil
	}
	return wrapKeyCoded[float64](it, f.c), seqKV(f.Keys(), f.Get)
}

func seqKV(keys []int, get func(int) (V, bool)) [][]int {
	out := [][]int{}
	for _, k := range keys {
		v, _ := get(k)
		out = append(out, []int{k, int(v)})
	}
	return out
}

// enumStates returns a path to every distinct reachable state of the universe (no logging)
func enumStates(u Universe, maxStates int, mutOnly func(Call) bool) [][]Call {
	x := u.New()
	seen := map[string]bool{canon(x): true}
	paths := [][]Call{nil}
	for qi := 0; qi < len(paths) && len(paths) < maxStates; qi++ {
		p := paths[qi]
		x = replay(u, p)
		for _, c := range u.Calls(x) {
			if !mutOnly(c) {
				continue
			}
			y := replay(u, p)
			c := c
			invoke(skeleton(y, c), func() { y.Do(c) })
			k := canon(y)
			if !seen[k] && u.Inside(y) && len(paths) < maxStates {
				seen[k] = true
				np := append(append([]Call{}, p...), c)
				paths = append(paths, np)
			}
		}
	}
	return paths
}

var curPreds = []pred{{Name: "true"}, {Name: "false"}, {Name: "keymod", M: 2, R: 1}, {Name: "valmod", M: 3, R: 0},
	{Name: "index", I: 1}, {Name: "keymod", M: 3, R: 2}}

type curCall struct {
	op string
	p  pred
}

func curCalls(rev bool) []curCall {
	cs := []curCall{{op: "Next"}, {op: "Begin"}, {op: "First"}}
	for _, p := range curPreds {
		cs = append(cs, curCall{"NextTo", p})
	}
	if rev {
		cs = append(cs, curCall{op: "Prev"}, curCall{op: "End"}, curCall{op: "Last"})
		for _, p := range curPreds {
			cs = append(cs, curCall{"PrevTo", p})
		}
	}
	return cs
}

// expected new position, used ONLY to steer the walk towards uncovered (position, call) pairs
func guidePos(seq [][]int, pos int, c curCall) int {
	n := len(seq)
	in := func(q int) bool { return q >= 0 && q < n }
	switch c.op {
	case "Next":
		if pos < n {
			return pos + 1
		}
		return n
	case "Prev":
		if pos >= 0 {
			return pos - 1
		}
		return -1
	case "Begin":
		return -1
	case "End":
		return n
	case "First":
		if n > 0 {
			return 0
		}
		return n
	case "Last":
		if n > 0 {
			return n - 1
		}
		return -1
	case "NextTo":
		q := pos
		for {
			if q < n {
				q++
			}
			if !in(q) || c.p.holds(seq[q][0], seq[q][1]) {
				return q
			}
		}
	case "PrevTo":
		q := pos
		for {
			if q >= 0 {
				q--
			}
			if !in(q) || c.p.holds(seq[q][0], seq[q][1]) {
				return q
			}
		}
	}
	return pos
}

var skipRead = rand.New(rand.NewSource(7))

// curScriptIdx >= 0: the next cursor walk follows that scripted walk instead of the covering random walk
var curScriptIdx = -1

// walks for containers of thousands of elements: from the far end backwards, a long run forwards without looking and a
// jump back to the start, runs that cross every level / node / chunk boundary, searches from the middle
func hugeCursorScripts(rev bool) [][]curCall {
	rep := func(op string, n int) []curCall {
		var out []curCall
		for i := 0; i < n; i++ {
			out = append(out, curCall{op: op})
		}
		return out
	}
	cat := func(parts ...[]curCall) []curCall {
		var out []curCall
		for _, p := range parts {
			out = append(out, p...)
		}
		return out
	}
	one := func(op string) []curCall { return rep(op, 1) }
	vm := func(op string, m, r int) []curCall { return []curCall{{op: op, p: pred{Name: "valmod", M: m, R: r}}} }
	if !rev {
		return [][]curCall{cat(rep("Next", 1300), one("First"), rep("Next", 8), one("Begin"), rep("Next", 2)),
			cat(rep("Next", 600), vm("NextTo", 97, 5), rep("Next", 700), one("Begin"), rep("Next", 3))}
	}
	return [][]curCall{
		cat(one("End"), rep("Prev", 900), rep("Next", 5), one("Begin"), rep("Next", 4)),
		cat(rep("Next", 1300), one("First"), rep("Next", 8), one("Last"), rep("Prev", 700), rep("Next", 3), one("End"), rep("Prev", 3)),
		cat(rep("Next", 600), vm("NextTo", 97, 5), rep("Prev", 40), vm("PrevTo", 89, 3), rep("Next", 1000), one("Last"), rep("Prev", 2), one("Begin"), rep("Next", 3))}
}

func cursorWalk(j *jobCtx, x Inst, maxSteps int) { cursorWalkAt(j, x, maxSteps, -1) }

// at >= 0: the iterator is created with RedBlackTree.IteratorAt(GetNode(key at position `at`))
func cursorWalkAt(j *jobCtx, x Inst, maxSteps int, at int) {
	var cur *cursor
	var seq [][]int
	fp0 := fullFP(x)
	ci := invoke(Ev{"op": "Iterator", "kind": x.Kind()}, func() {
		cur, seq = makeCursor(x)
		if at >= 0 {
			t := x.Target().(*rbt.Tree[int, V])
			cur = wrapKey(t.IteratorAt(t.GetNode(seq[at][0])))
		}
	})
	base := Ev{"fam": "cur", "kind": x.Kind(), "cfg": x.Cfg(), "timeout": false, "obsbad": false}
	ev := func(extra Ev) Ev {
		e := Ev{}
		for k, v := range base {
			e[k] = v
		}
		for k, v := range extra {
			e[k] = v
		}
		return e
	}
	base["at"] = at
	if ci.Panic || cur == nil {
		emit(ev(Ev{"op": "NewIter", "rs": 1, "seq": [][]int{}, "keyed": false, "rev": false, "panic": true, "pmsg": ci.PMsg,
			"out": ci.Out, "p": pred{Name: "true"}, "ret": false, "has": false, "key": 0, "val": 0, "idx": 0, "pure": true}))
		return
	}
	emit(ev(Ev{"op": "NewIter", "rs": 1, "seq": seq, "keyed": cur.keyed, "rev": cur.reverse, "panic": false, "pmsg": "",
		"out": ci.Out, "p": pred{Name: "true"}, "ret": false, "has": false, "key": 0, "val": 0, "idx": 0, "pure": true}))
	curWalks++
	companion := func() {}
	if curWalks%2 == 0 && len(seq) <= 64 {
		companion = makeCompanion(x, j.r)
	}
	curHook = companion
	defer func() { curHook = func() {} }()
	calls := curCalls(cur.reverse)
	n := len(seq)
	covered := map[[2]int]bool{}
	total := (n + 2) * len(calls)
	pos := at
	var script []curCall
	if ss := hugeCursorScripts(cur.reverse); curScriptIdx >= 0 && curScriptIdx < len(ss) {
		script = ss[curScriptIdx]
	}
	curScriptIdx = -1
	for step := 0; step < maxSteps && (len(covered) < total || script != nil); step++ {
		var c curCall
		if script != nil {
			// a scripted walk: long runs in one direction, jumps in the middle of a run
			if step >= len(script) {
				break
			}
			c = script[step]
		} else {
			// prefer a call not yet taken from this position; else move at random
			pick := -1
			off := j.r.Intn(len(calls))
			for k := range calls {
				ci := (k + off) % len(calls)
				if !covered[[2]int{pos, ci}] {
					pick = ci
					break
				}
			}
			if pick < 0 {
				pick = j.r.Intn(len(calls))
			}
			covered[[2]int{pos, pick}] = true
			c = calls[pick]
		}
		var ret, has bool
		var a, b int
		e := ev(Ev{"op": c.op, "rs": 0, "p": c.p})
		ci := invoke(e, func() {
			companion()
			switch c.op {
			case "Next":
				ret = cur.next()
			case "Prev":
				ret = cur.prev()
			case "First":
				ret = cur.first()
			case "Last":
				ret = cur.last()
			case "Begin":
				cur.begin()
			case "End":
				cur.end()
			case "NextTo":
				ret = cur.nextTo(c.p)
			case "PrevTo":
				ret = cur.prevTo(c.p)
			}
			companion()
			// values are read only after a move that returned true - and not after every such move:
			// a caller may step several times before looking
			if ret && c.op != "Begin" && c.op != "End" && skipRead.Intn(3) != 0 {
				a, b = cur.read()
				has = true
			}
		})
		e["panic"], e["pmsg"], e["out"] = ci.Panic, ci.PMsg, ci.Out
		e["ret"], e["has"], e["key"], e["val"], e["idx"] = ret, has, a, b, a
		e["seq"], e["keyed"], e["rev"], e["pure"] = 0, cur.keyed, cur.reverse, true
		emit(e)
		distinct[x.Kind()+"|"+c.op+"|"+c.p.Name+"|"+itoa(posClass(pos, n))] = struct{}{}
		if ci.Panic {
			return
		}
		pos = guidePos(seq, pos, c)
	}
	// iteration must not have modified the container (C18)
	emit(ev(Ev{"op": "EndIter", "rs": 0, "p": pred{Name: "true"}, "panic": false, "pmsg": "", "out": 0, "ret": false,
		"has": false, "key": 0, "val": 0, "idx": 0, "seq": 0, "keyed": cur.keyed, "rev": cur.reverse,
		"pure": fp0 == fullFP(x)}))
}

// Kept iterators: an iterator is created, moved somewhere, the container is then modified, and the SAME iterator is
// rewound with Begin / End / First / Last (the library's own tests do this on every container) and walked again: from
// the jump on it must be a cursor over the container's NEW sequence.  A "Modified" event carries that sequence and
// makes the position unknown to the specification until the next absolute jump.
func cursorKept(j *jobCtx, u Universe, path []Call) {
	x0 := replay(u, path)
	// modifications: single mutating calls of the universe, pairs that keep the size, a multi-argument removal, Clear
	// and a load (whatever the kind offers)
	var muts [][]Call
	var single []Call
	for _, c := range u.Calls(x0) {
		if x0.Mutates(c.Op) && c.Op != "New" {
			single = append(single, c)
		}
	}
	for i, c := range single {
		if i%(1+len(single)/6) == 0 || c.Op == "Clear" || c.Op == "FromJSON" {
			muts = append(muts, []Call{c})
		}
	}
	for i := 0; i+1 < len(single) && len(muts) < 14; i += 1 + len(single)/4 {
		muts = append(muts, []Call{single[i], single[len(single)-1-i]})
	}
	switch t := x0.(type) {
	case *setInst:
		vs := t.s.Values()
		if len(vs) >= 2 {
			muts = append(muts, []Call{{Op: "Remove", Vs: []int{vs[0], vs[len(vs)-1]}}}, []Call{{Op: "Remove", Vs: []int{vs[0], vs[1]}}, {Op: "Add", Vs: []int{vs[0]}}})
		}
	case *mapInst:
		ks := t.c.Keys()
		if len(ks) >= 1 { // remove the least / greatest key and put another one: the size stays
			muts = append(muts, []Call{{Op: "Remove", I: ks[0]}, {Op: "Put", I: ks[0] + 1, V: 7}}, []Call{{Op: "Remove", I: ks[len(ks)-1]}, {Op: "Put", I: -1, V: 7}},
				[]Call{{Op: "Clear"}, {Op: "Put", I: 2, V: 1}})
		}
	case *heapInst:
		put, take := "Push", "Pop"
		if t.kind == "priorityqueue" {
			put, take = "Enqueue", "Dequeue"
		}
		for rep := 0; rep < 2; rep++ {
			muts = append(muts, []Call{{Op: take}, {Op: put, Vs: []int{1}}}, []Call{{Op: put, Vs: []int{1}}}, []Call{{Op: put, Vs: []int{99}}, {Op: take}})
		}
	}
	rewinds := []string{"Begin", "First", "Last", "End"}
	for mi, mut := range muts {
		if budgetExceeded() {
			return
		}
		x := replay(u, path)
		var cur *cursor
		var seq [][]int
		ci := invoke(Ev{"op": "Iterator", "kind": x.Kind()}, func() { cur, seq = makeCursor(x) })
		if ci.Panic || cur == nil {
			continue
		}
		base := Ev{"fam": "cur", "kind": x.Kind(), "cfg": x.Cfg(), "timeout": false, "obsbad": false, "at": -1}
		ev := func(extra Ev) Ev {
			e := Ev{}
			for k, v := range base {
				e[k] = v
			}
			for k, v := range extra {
				e[k] = v
			}
			return e
		}
		zero := Ev{"p": pred{Name: "true"}, "ret": false, "has": false, "key": 0, "val": 0, "idx": 0, "pure": true, "panic": false, "pmsg": "", "out": 0}
		emit(ev(merge(zero, Ev{"op": "NewIter", "rs": 1, "seq": seq, "keyed": cur.keyed, "rev": cur.reverse})))
		do := func(c curCall) bool {
			var ret, has bool
			var a, b int
			e := ev(Ev{"op": c.op, "rs": 0, "p": c.p})
			ci := invoke(e, func() {
				switch c.op {
				case "Next":
					ret = cur.next()
				case "Prev":
					ret = cur.prev()
				case "First":
					ret = cur.first()
				case "Last":
					ret = cur.last()
				case "Begin":
					cur.begin()
				case "End":
					cur.end()
				}
				if ret && c.op != "Begin" && c.op != "End" {
					a, b = cur.read()
					has = true
				}
			})
			e["panic"], e["pmsg"], e["out"] = ci.Panic, ci.PMsg, ci.Out
			e["ret"], e["has"], e["key"], e["val"], e["idx"] = ret, has, a, b, a
			e["seq"], e["keyed"], e["rev"], e["pure"] = 0, cur.keyed, cur.reverse, true
			emit(e)
			return !ci.Panic
		}
		// move off the initial state: a few steps forward (different depths for different scenarios), sometimes to the far end
		ok := true
		pre := 1 + (mi*7+3)%(len(seq)+2)
		if pre > 24 {
			pre = 9 + (mi*7)%16
		}
		if mi%4 == 0 && len(seq) <= 64 { // near the end: the last, the last but one, ... element (what is appended lands next to it)
			if pre = len(seq) - (mi/4)%3; pre < 1 {
				pre = 1
			}
		}
		for s := 0; s < pre && ok; s++ {
			ok = do(curCall{op: "Next"})
		}
		if mi%3 == 2 && cur.reverse && ok {
			ok = do(curCall{op: "Last"})
		}
		if !ok {
			continue
		}
		// modify the container (under the watchdog, not logged as cursor events: the families of the container judge these calls)
		bad := false
		for _, c := range mut {
			c := c
			if gi := invoke(skeleton(x, c), func() { x.Do(c) }); gi.Panic {
				bad = true
			}
		}
		if bad {
			continue
		}
		var seq2 [][]int
		if gi := invoke(Ev{"op": "Iterator", "kind": x.Kind()}, func() { _, seq2 = makeCursor(x) }); gi.Panic {
			continue
		}
		emit(ev(merge(zero, Ev{"op": "Modified", "rs": 0, "seq": seq2, "keyed": cur.keyed, "rev": cur.reverse})))
		// every other scenario: relative moves from the now unspecified position, each read after a successful move.  Where
		// they lead is not specified (C08 does not judge them); they must still return, silently (C17: any interleaving)
		if mi%2 == 0 {
			rel := []string{"Next", "Next", "Next"}
			if cur.reverse {
				rel = [][]string{{"Next", "Next", "Prev", "Prev", "Prev"}, {"Prev", "Next", "Next", "Next"}, {"Next", "Next", "Next"}}[(mi/2)%3]
			}
			if mi%4 == 0 { // all the way: forward until the end of whatever the iterator now walks, then (if it can) all the way back
				n := len(seq2) + 3
				if n > 40 {
					n = 40
				}
				rel = nil
				for i := 0; i < n; i++ {
					rel = append(rel, "Next")
				}
				for i := 0; i < n && cur.reverse; i++ {
					rel = append(rel, "Prev")
				}
			}
			okRel := true
			for _, s := range rel {
				if okRel = do(curCall{op: s}); !okRel {
					break
				}
			}
			if !okRel {
				continue
			}
		}
		// rewind and walk
		rw := rewinds[mi%len(rewinds)]
		if !cur.reverse && (rw == "Last" || rw == "End") {
			rw = rewinds[mi%2]
		}
		if !do(curCall{op: rw}) {
			continue
		}
		// at least as far as the iterator had been before the modification, in the direction of the rewind
		dir := "Next"
		if rw == "Last" || rw == "End" {
			dir = "Prev"
		}
		var steps []string
		for s := 0; s < pre+2 || s < 3; s++ {
			steps = append(steps, dir)
		}
		if cur.reverse {
			steps = append(steps, "First", "Next", "Last", "Prev", "End", "Prev", "Begin", "Next")
		} else {
			steps = append(steps, "First", "Next", "Begin", "Next")
		}
		for _, s := range steps {
			if !do(curCall{op: s}) {
				break
			}
		}
		distinct[x.Kind()+"|kept|"+rw+"|"+mut[0].Op] = struct{}{}
	}
}

func merge(a, b Ev) Ev {
	out := Ev{}
	for k, v := range a {
		out[k] = v
	}
	for k, v := range b {
		out[k] = v
	}
	return out
}

func posClass(pos, n int) int {
	switch {
	case pos < 0:
		return 0
	case pos >= n:
		return 4
	case pos == 0:
		return 1
	case pos == n-1:
		return 3
	}
	return 2
}

func init() {
	jobs["cur"] = jobCursor
	kindsOf["cur"] = []string{"arraylist", "singlylinkedlist", "doublylinkedlist", "arraystack", "linkedliststack",
		"arrayqueue", "linkedlistqueue", "circularbuffer", "priorityqueue", "binaryheap", "treeset", "linkedhashset",
		"treemap", "linkedhashmap", "treebidimap", "redblacktree", "avltree", "btree"}
}

func isMut(x Inst) func(Call) bool { return func(c Call) bool { return x.Mutates(c.Op) } }

func jobCursor(j *jobCtx) {
	q := j.quick()
	pick := func(a, b int) int {
		if q {
			return a
		}
		return b
	}
	ctr := 0
	hugeDone := map[string]bool{}
	var us []Universe
	for _, k := range kindsOf["cur"] {
		if !j.want(k) {
			continue
		}
		switch k {
		case "arraylist", "singlylinkedlist", "doublylinkedlist":
			us = append(us, &seqUniverse{kind: k, vals: []int{1, 2}, maxLen: pick(3, 4), argLen: 1, cmps: []string{"nat"}})
		case "arraystack", "linkedliststack", "arrayqueue", "linkedlistqueue":
			us = append(us, &queUniverse{kind: k, maxLen: pick(3, 5), nval: 2})
		case "circularbuffer":
			for c := 1; c <= pick(3, 5); c++ {
				us = append(us, &queUniverse{kind: k, cap: c, maxLen: c, nval: 2})
			}
		case "priorityqueue", "binaryheap":
			us = append(us, &heapUniverse{kind: k, cmp: "prio", elems: []int{11, 12, 21, 31}, maxLen: pick(3, 4)},
				&heapUniverse{kind: k, cmp: "maxprio", elems: []int{11, 21, 22, 31}, maxLen: pick(3, 4)})
		case "treeset":
			us = append(us, &setUniverse{kind: k, cmp: "nat", n: pick(4, 6), argLen: 1}, &setUniverse{kind: k, cmp: "rev", n: 4, argLen: 1})
		case "linkedhashset":
			us = append(us, &setUniverse{kind: k, cmp: "", n: pick(3, 4), argLen: 1})
		case "treemap":
			us = append(us, &mapUniverse{kind: k, cmp: "nat", nk: pick(4, 6), ctr: &ctr}, &mapUniverse{kind: k, cmp: "rev", nk: pick(3, 4), ctr: &ctr},
				&mapUniverse{kind: k, cmp: "dflt", nk: 5, ctr: &ctr})
		case "linkedhashmap":
			us = append(us, &mapUniverse{kind: k, nk: pick(3, 4), ctr: &ctr})
		case "treebidimap":
			us = append(us, &mapUniverse{kind: k, cmp: "nat", vcmp: "nat", nk: 3, nv: 3, ctr: &ctr}, &mapUniverse{kind: k, cmp: "dflt", vcmp: "nat", nk: 4, nv: 3, ctr: &ctr})
		case "redblacktree", "avltree":
			us = append(us, &mapUniverse{kind: k, cmp: "nat", nk: pick(5, 7), ctr: &ctr}, &mapUniverse{kind: k, cmp: "rev", nk: pick(3, 4), ctr: &ctr},
				&mapUniverse{kind: k, cmp: "dflt", nk: 5, ctr: &ctr}, &mapUniverse{kind: k, cmp: "dfltTot", nk: 5, ctr: &ctr})
		case "btree":
			us = append(us, &mapUniverse{kind: k, cmp: "nat", m: 3, nk: pick(6, 9), ctr: &ctr},
				&mapUniverse{kind: k, cmp: "nat", m: 4, nk: pick(5, 8), ctr: &ctr},
				&mapUniverse{kind: k, cmp: "nat", m: 5, nk: pick(6, 9), ctr: &ctr},
				&mapUniverse{kind: k, cmp: "rev", m: 3, nk: pick(4, 5), ctr: &ctr},
				&mapUniverse{kind: k, cmp: "dflt", m: 3, nk: 5, ctr: &ctr}, &mapUniverse{kind: k, cmp: "dflt", m: 4, nk: 5, ctr: &ctr},
				&mapUniverse{kind: k, cmp: "dfltTot", m: 3, nk: 5, ctr: &ctr})
		}
	}
	for _, u := range us {
		x0 := u.New()
		paths := enumStates(u, pick(150, 3000), isMut(x0))
		// one larger state per universe: deeper trees, wider heap levels with ties, longer chains
		var big []Call
		switch t := x0.(type) {
		case *seqInst:
			big = append(big, Call{Op: "Add", Vs: rangeInts(0, 12)})
		case *queInst:
			put := "Enqueue"
			if queDisc(t.kind) == "lifo" {
				put = "Push"
			}
			for i := 0; i < 10 && (t.kind != "circularbuffer" || i < t.cap+2); i++ {
				big = append(big, Call{Op: put, V: i % 4})
			}
		case *heapInst:
			put := "Push"
			if t.kind == "priorityqueue" {
				put = "Enqueue"
			}
			for i := 0; i < 17; i++ { // equal priorities: three or more ties on every level; a level of eight
				big = append(big, Call{Op: put, Vs: []int{10*(1+i/8) + i%8}})
			}
		case *setInst:
			big = append(big, Call{Op: "Add", Vs: rangeInts(20, 0)})
		case *mapInst:
			if !mapBidi(t.kind) {
				n := 24
				if t.kind == "btree" {
					n = 45
				}
				for i := 0; i < n; i++ {
					big = append(big, Call{Op: "Put", I: (i * 7) % n, V: i})
				}
				for i := 0; i < n/3; i++ {
					big = append(big, Call{Op: "Remove", I: (i * 5) % n})
				}
			}
		}
		if big != nil {
			paths = append(paths, big)
		}
		// first (fixed cost): one state of thousands of elements per kind, scripted walks and one covering walk
		if !hugeDone[x0.Kind()] {
			hugeDone[x0.Kind()] = true
			hp := hugeStatePath(x0)
			if h, ok := x0.(*heapInst); ok { // levels of more than a thousand elements
				hp = nil
				vs := make([]int, 3000)
				for i := range vs {
					vs[i] = 10*((i*37)%293) + i%10
				}
				if h.h != nil {
					hp = append(hp, Call{Op: "Push", Vs: vs})
				} else {
					for _, v := range vs {
						hp = append(hp, Call{Op: "Enqueue", Vs: []int{v}})
					}
				}
			}
			if hp != nil {
				var x Inst
				gi := guard("cur", x0.Kind(), "Build", func() { x = replay(u, hp) })
				if !gi.Panic && x != nil {
					j.states++
					for si := 0; si < 3; si++ {
						curScriptIdx = si
						cursorWalk(j, x, 4000)
					}
					cursorWalk(j, x, 120)
					cursorKept(j, u, hp)
				}
			}
		}
		keptStride := 1 + len(paths)/pick(30, 120)
		for pi, p := range paths {
			if budgetExceeded() {
				extraStats["tour_truncated"] = true
				return
			}
			x := replay(u, p)
			j.states++
			walks := 1
			if !q {
				walks = 2
			}
			for w := 0; w < walks; w++ {
				cursorWalk(j, x, 400)
			}
			// kept iterators: modified container, rewound iterator (a sample of the states)
			if pi%keptStride == 0 || (big != nil && pi == len(paths)-1) {
				cursorKept(j, u, p)
			}
			// IteratorAt(node): a cursor that starts on an element (red-black tree only)
			if t, ok := x.Target().(*rbt.Tree[int, V]); ok {
				for at := 0; at < t.Size(); at++ {
					cursorWalkAt(j, x, 60, at)
				}
			}
		}
	}
}
