package main

// Family ENUM: Each / Any / All / Find / Select / Map on the eight enumerable containers (C14).
// One self-contained event per (container state, function, family member): the receiver's iteration
// sequence, the callback log, the result, and the contents of receiver and result afterwards.

import (
	"github.com/emirpasic/gods/v2/lists/arraylist"
	"github.com/emirpasic/gods/v2/lists/doublylinkedlist"
	"github.com/emirpasic/gods/v2/lists/singlylinkedlist"
	"github.com/emirpasic/gods/v2/maps/linkedhashmap"
	"github.com/emirpasic/gods/v2/maps/treebidimap"
	"github.com/emirpasic/gods/v2/maps/treemap"
	"github.com/emirpasic/gods/v2/sets/linkedhashset"
	"github.com/emirpasic/gods/v2/sets/treeset"
	"strconv"
)

// mapper family shared with AbsEnum.tla
//
//	index containers: value' = f(index, value);  key containers: (key', value') = f(key, value)
type mapper struct {
	Name string `json:"name"`
	C    int    `json:"c"`
}

func (m mapper) idx(i, v int) int {
	switch m.Name {
	case "add":
		return v + m.C
	case "half":
		return v / 2
	case "const":
		return m.C
	case "index":
		return i
	case "sum":
		return i + v
	}
	return v
}
func (m mapper) kv(k, v int) (int, int) {
	switch m.Name {
	case "id":
		return k, v
	case "khalf":
		return k / 2, v
	case "vconst":
		return k, m.C
	case "kconst":
		return m.C, v
	case "vkey":
		return k, k
	case "neg":
		return 10 - k, v
	case "vhalf":
		return k, v / 2
	}
	return k, v
}

var enumPreds = []pred{{Name: "true"}, {Name: "false"}, {Name: "keymod", M: 2, R: 0}, {Name: "keymod", M: 2, R: 1},
	{Name: "valmod", M: 2, R: 0}, {Name: "valmod", M: 3, R: 1}, {Name: "index", I: 1}, {Name: "sum3", M: 3, R: 0}, {Name: "keymod", M: 7, R: 3}}
var idxMappers = []mapper{{"add", 1}, {"half", 0}, {"const", 7}, {"index", 0}, {"sum", 0}}
var kvMappers = []mapper{{"id", 0}, {"khalf", 0}, {"vconst", 5}, {"kconst", 2}, {"vkey", 0}, {"neg", 0}, {"vhalf", 0}}

type idxEnum[C any] interface {
	Each(func(int, int))
	Any(func(int, int) bool) bool
	All(func(int, int) bool) bool
	Find(func(int, int) bool) (int, int)
	Select(func(int, int) bool) C
	Map(func(int, int) int) C
}
type kvEnum[C any] interface {
	Each(func(int, V))
	Any(func(int, V) bool) bool
	All(func(int, V) bool) bool
	Find(func(int, V) bool) (int, V)
	Select(func(int, V) bool) C
	Map(func(int, V) (int, V)) C
}

type enumCtx struct {
	j    *jobCtx
	u    Universe
	path []Call
}

func (c *enumCtx) base(x Inst, op string) Ev {
	cfg := jsonCfg(x)
	return Ev{"fam": "enum", "kind": x.Kind(), "cfg": cfg, "op": op, "rs": 1, "timeout": false, "obsbad": false,
		"p": pred{Name: "true"}, "mp": mapper{Name: "id"}, "res": []any{}, "ret": []any{}, "hasres": false,
		"res_after": []any{}, "recv_after": []any{}, "refres": []any{}, "hasref": false, "nest": enumNestMode}
}

// the receiver's iteration sequence as [index or key, value] pairs, read with a fresh iterator
func iterSeq(x Inst) [][]int {
	cur, _ := makeCursor(x)
	out := [][]int{}
	for i := 0; cur.next() && i < 1<<16; i++ {
		a, b := cur.read()
		out = append(out, []int{a, b})
	}
	return out
}

func finish(e Ev, x Inst, fp0 string, ci callInfo, log [][]int) {
	e["panic"], e["pmsg"], e["out"] = ci.Panic, ci.PMsg, ci.Out
	if log == nil {
		log = [][]int{}
	}
	e["log"] = log
	e["recv"] = contentOf(x)
	e["pure"] = fp0 == fullFP(x)
	emit(e)
}

// independence of receiver and result: mutate one, look at the other
func independence(e Ev, x, res Inst) {
	mutate := func(y Inst) {
		defer func() { recover() }()
		switch t := y.(type) {
		case *seqInst:
			t.l.Add(77)
			t.l.Remove(0)
		case *setInst:
			t.s.Add(77)
			t.s.Remove(1, 2)
		case *mapInst:
			t.c.Put(77, 7)
			t.c.Remove(1)
			t.c.Remove(2)
		}
	}
	resBefore := contentOf(res)
	mutate(res)
	e["recv_after"] = contentOf(x) // must still be the receiver's content
	// now the other direction on fresh objects is covered by the next event; here: mutate receiver, look at result
	resNow := contentOf(res)
	mutate(x)
	e["res_after"] = []any{resNow, contentOf(res)} // must be equal to each other
	_ = resBefore
}

func wrapRes(x Inst, c any) Inst {
	switch t := x.(type) {
	case *seqInst:
		return &seqInst{kind: t.kind, l: c.(listX), probe: t.probe}
	case *setInst:
		return &setInst{kind: t.kind, cmp: t.cmp, s: c.(interface {
			Add(...int)
			Remove(...int)
			Contains(...int) bool
			Empty() bool
			Size() int
			Clear()
			Values() []int
			String() string
		}), probe: t.probe, cmpF: t.cmpF}
	case *mapInst:
		return &mapInst{kind: t.kind, cmp: t.cmp, vcmp: t.vcmp, m: t.m, probeK: t.probeK, probeV: t.probeV,
			c: c.(interface {
				Put(int, V)
				Get(int) (V, bool)
				Remove(int)
				Keys() []int
				Empty() bool
				Size() int
				Clear()
				Values() []V
				String() string
			})}
	}
	return nil
}

// called at the start of every enumeration callback (re-entrancy modes, see runIdxEnum)
var enumNested = func() {}
var enumNestMode = 0

func holdsX(p pred, a, b int) bool {
	if p.Name == "sum3" {
		return mod(a+b, p.M) == p.R
	}
	return p.holds(a, b)
}

func runIdxEnum[C any](c *enumCtx, get func(Inst) idxEnum[C]) {
	for nest := 0; nest <= 2; nest++ {
		nest := nest
		// re-entrancy: in modes 1 and 2 every callback itself enumerates / reads the SAME receiver (read-only calls from inside
		// a read-only call: "for every element, is there an element such that ..."); the visited pairs and results must not change
		fresh := func() (Inst, idxEnum[C]) {
			x := replay(c.u, c.path)
			en := get(x)
			enumNested = func() {
				switch nest {
				case 1:
					en.Any(func(int, int) bool { return false })
				case 2:
					en.Each(func(int, int) {})
					en.Find(func(int, int) bool { return false })
					en.All(func(int, int) bool { return true })
					iterSeq(x)
				}
			}
			return x, en
		}
		preds, mappers := enumPreds, idxMappers
		if nest > 0 {
			preds, mappers = enumPreds[:4], idxMappers[:2]
		}
		// Each
		{
			x, en := fresh()
			e := c.base(x, "Each")
			e["seq"] = iterSeq(x)
			fp0 := fullFP(x)
			var log [][]int
			ci := invoke(e, func() { en.Each(func(i, v int) { enumNested(); log = append(log, []int{i, v}) }) })
			finish(e, x, fp0, ci, log)
		}
		for _, p := range preds {
			p := p
			for _, op := range []string{"Any", "All", "Find", "Select"} {
				x, en := fresh()
				e := c.base(x, op)
				e["p"] = p
				e["seq"] = iterSeq(x)
				fp0 := fullFP(x)
				var log [][]int
				f := func(i, v int) bool { enumNested(); log = append(log, []int{i, v}); return holdsX(p, i, v) }
				var res Inst
				ci := invoke(e, func() {
					switch op {
					case "Any":
						e["ret"] = []any{en.Any(f)}
					case "All":
						e["ret"] = []any{en.All(f)}
					case "Find":
						a, b := en.Find(f)
						e["ret"] = []any{a, b}
					case "Select":
						res = wrapRes(x, any(en.Select(f)))
					}
				})
				if res != nil && !ci.Panic {
					e["hasres"] = true
					e["res"] = contentOf(res)
					fpr := fullFP(x)
					independence(e, x, res)
					_ = fpr
					// independence mutates the receiver: report receiver content before that
					e["panic"], e["pmsg"], e["out"] = ci.Panic, ci.PMsg, ci.Out
					e["log"] = orEmpty(log)
					e["recv"] = e["recv_after"]
					e["pure"] = fp0 == fpr
					emit(e)
					continue
				}
				finish(e, x, fp0, ci, log)
				distinct[x.Kind()+"|"+op+"|"+p.Name+"|"+strconv.Itoa(enumNestMode)] = struct{}{}
			}
		}
		for _, m := range mappers {
			m := m
			x, en := fresh()
			e := c.base(x, "Map")
			e["mp"] = m
			e["seq"] = iterSeq(x)
			fp0 := fullFP(x)
			var log [][]int
			var res Inst
			ci := invoke(e, func() {
				res = wrapRes(x, any(en.Map(func(i, v int) int { enumNested(); log = append(log, []int{i, v}); return m.idx(i, v) })))
			})
			if res != nil && !ci.Panic {
				e["hasres"] = true
				e["res"] = contentOf(res)
				// reference: a fresh container of the same configuration, the mapped elements inserted in iteration order
				ref := c.u.New()
				for _, pr := range e["seq"].([][]int) {
					switch t := ref.(type) {
					case *seqInst:
						t.l.Add(m.idx(pr[0], pr[1]))
					case *setInst:
						t.s.Add(m.idx(pr[0], pr[1]))
					}
				}
				e["refres"], e["hasref"] = contentOf(ref), true
				fpr := fullFP(x)
				independence(e, x, res)
				e["panic"], e["pmsg"], e["out"] = ci.Panic, ci.PMsg, ci.Out
				e["log"] = orEmpty(log)
				e["recv"] = e["recv_after"]
				e["pure"] = fp0 == fpr
				emit(e)
				continue
			}
			finish(e, x, fp0, ci, log)
		}
	}
	enumNested, enumNestMode = func() {}, 0
}

func orEmpty(l [][]int) [][]int {
	if l == nil {
		return [][]int{}
	}
	return l
}

func runKVEnum[C any](c *enumCtx, get func(Inst) kvEnum[C]) {
	for nest := 0; nest <= 2; nest++ {
		nest := nest
		fresh := func() (Inst, kvEnum[C]) {
			x := replay(c.u, c.path)
			en := get(x)
			enumNested = func() {
				switch nest {
				case 1:
					en.Any(func(int, V) bool { return false })
				case 2:
					en.Each(func(int, V) {})
					en.Find(func(int, V) bool { return false })
					en.All(func(int, V) bool { return true })
					iterSeq(x)
				}
			}
			return x, en
		}
		preds, mappers := enumPreds, kvMappers
		if nest > 0 {
			preds, mappers = enumPreds[:4], kvMappers[:2]
		}
		{
			x, en := fresh()
			e := c.base(x, "Each")
			e["seq"] = iterSeq(x)
			fp0 := fullFP(x)
			var log [][]int
			ci := invoke(e, func() { en.Each(func(k int, v V) { enumNested(); log = append(log, []int{k, int(v)}) }) })
			finish(e, x, fp0, ci, log)
		}
		for _, p := range preds {
			p := p
			for _, op := range []string{"Any", "All", "Find", "Select"} {
				x, en := fresh()
				e := c.base(x, op)
				e["p"] = p
				e["seq"] = iterSeq(x)
				fp0 := fullFP(x)
				var log [][]int
				f := func(k int, v V) bool { enumNested(); log = append(log, []int{k, int(v)}); return holdsX(p, k, int(v)) }
				var res Inst
				ci := invoke(e, func() {
					switch op {
					case "Any":
						e["ret"] = []any{en.Any(f)}
					case "All":
						e["ret"] = []any{en.All(f)}
					case "Find":
						a, b := en.Find(f)
						e["ret"] = []any{a, int(b)}
					case "Select":
						res = wrapRes(x, any(en.Select(f)))
					}
				})
				if res != nil && !ci.Panic {
					e["hasres"] = true
					e["res"] = contentOf(res)
					fpr := fullFP(x)
					independence(e, x, res)
					e["panic"], e["pmsg"], e["out"] = ci.Panic, ci.PMsg, ci.Out
					e["log"] = orEmpty(log)
					e["recv"] = e["recv_after"]
					e["pure"] = fp0 == fpr
					emit(e)
					continue
				}
				finish(e, x, fp0, ci, log)
				distinct[x.Kind()+"|"+op+"|"+p.Name+"|"+strconv.Itoa(enumNestMode)] = struct{}{}
			}
		}
		for _, m := range mappers {
			m := m
			x, en := fresh()
			e := c.base(x, "Map")
			e["mp"] = m
			e["seq"] = iterSeq(x)
			fp0 := fullFP(x)
			var log [][]int
			var res Inst
			ci := invoke(e, func() {
				res = wrapRes(x, any(en.Map(func(k int, v V) (int, V) {
					enumNested()
					log = append(log, []int{k, int(v)})
					a, b := m.kv(k, int(v))
					return a, V(b)
				})))
			})
			if res != nil && !ci.Panic {
				e["hasres"] = true
				e["res"] = contentOf(res)
				ref := c.u.New().(*mapInst)
				for _, pr := range e["seq"].([][]int) {
					a, b := m.kv(pr[0], pr[1])
					ref.c.Put(a, V(b))
				}
				e["refres"], e["hasref"] = contentOf(ref), true
				fpr := fullFP(x)
				independence(e, x, res)
				e["panic"], e["pmsg"], e["out"] = ci.Panic, ci.PMsg, ci.Out
				e["log"] = orEmpty(log)
				e["recv"] = e["recv_after"]
				e["pure"] = fp0 == fpr
				emit(e)
				continue
			}
			finish(e, x, fp0, ci, log)
		}
	}
	enumNested, enumNestMode = func() {}, 0
}

func init() {
	jobs["enum"] = jobEnum
	kindsOf["enum"] = []string{"arraylist", "singlylinkedlist", "doublylinkedlist", "treeset", "linkedhashset", "treemap",
		"linkedhashmap", "treebidimap"}
}

func jobEnum(j *jobCtx) {
	q := j.quick()
	pick := func(a, b int) int {
		if q {
			return a
		}
		return b
	}
	ctr := new(int)
	hugeDone := map[string]bool{}
	for _, k := range kindsOf["enum"] {
		if !j.want(k) {
			continue
		}
		var us []Universe
		switch k {
		case "arraylist", "singlylinkedlist", "doublylinkedlist":
			us = []Universe{&seqUniverse{kind: k, vals: []int{1, 2, 3}, maxLen: pick(3, 4), argLen: 1, cmps: []string{"nat"}}}
		case "treeset":
			us = []Universe{&setUniverse{kind: k, cmp: "nat", n: pick(4, 5), argLen: 1}, &setUniverse{kind: k, cmp: "revx", n: pick(4, 5), argLen: 1},
				&setUniverse{kind: k, cmp: "half", n: pick(4, 5), argLen: 1}, &setUniverse{kind: k, cmp: "dfltTot", n: 5, argLen: 1}}
		case "linkedhashset":
			us = []Universe{&setUniverse{kind: k, n: pick(3, 4), argLen: 1}}
		case "treemap":
			us = []Universe{&mapUniverse{kind: k, cmp: "nat", nk: pick(4, 5), ctr: ctr}, &mapUniverse{kind: k, cmp: "revx", nk: pick(4, 5), ctr: ctr},
				&mapUniverse{kind: k, cmp: "half", nk: pick(4, 5), ctr: ctr}}
		case "linkedhashmap":
			us = []Universe{&mapUniverse{kind: k, nk: pick(3, 4), ctr: ctr}}
		case "treebidimap":
			us = []Universe{&mapUniverse{kind: k, cmp: "nat", vcmp: "nat", nk: 3, nv: 3, ctr: ctr},
				&mapUniverse{kind: k, cmp: "rev", vcmp: "rev", nk: 3, nv: 3, ctr: ctr}}
		}
		for _, u := range us {
			x0 := u.New()
			paths := enumStates(u, pick(60, 600), isMut(x0))
			// one large state per universe (40 elements): chunked or cached implementations only differ there
			var big []Call
			switch x0.(type) {
			case *seqInst:
				for i := 0; i < 40; i++ {
					big = append(big, Call{Op: "Add", Vs: []int{(i * 7) % 11}})
				}
			case *setInst:
				big = append(big, Call{Op: "Add", Vs: rangeInts(40, 0)})
			case *mapInst:
				if !mapBidi(k) {
					for i := 0; i < 40; i++ {
						big = append(big, Call{Op: "Put", I: (i * 13) % 40, V: i % 5})
					}
				}
			}
			if big != nil {
				paths = append(paths, big)
			}
			// and one of 600 (beyond any block of 256 or 512 elements), first: fixed cost
			if !hugeDone[k] {
				hugeDone[k] = true
				var huge []Call
				switch x0.(type) {
				case *seqInst:
					vs := make([]int, 600)
					for i := range vs {
						vs[i] = (i * 7) % 311
					}
					huge = append(huge, Call{Op: "Add", Vs: vs})
				case *setInst:
					huge = append(huge, Call{Op: "Add", Vs: rangeInts(600, 0)})
				case *mapInst:
					if !mapBidi(k) {
						for i := 0; i < 300; i++ { // (the reference computation of Map on a map is quadratic)
							huge = append(huge, Call{Op: "Put", I: (i * 13) % 300, V: i % 5})
						}
					}
				}
				if huge != nil {
					paths = append([][]Call{huge}, paths...)
				}
			}
			for _, p := range paths {
				if budgetExceeded() {
					extraStats["tour_truncated"] = true
					return
				}
				j.states++
				c := &enumCtx{j: j, u: u, path: p}
				switch k {
				case "arraylist":
					runIdxEnum[*arraylist.List[int]](c, func(x Inst) idxEnum[*arraylist.List[int]] { return x.Target().(*arraylist.List[int]) })
				case "singlylinkedlist":
					runIdxEnum[*singlylinkedlist.List[int]](c, func(x Inst) idxEnum[*singlylinkedlist.List[int]] {
						return x.Target().(*singlylinkedlist.List[int])
					})
				case "doublylinkedlist":
					runIdxEnum[*doublylinkedlist.List[int]](c, func(x Inst) idxEnum[*doublylinkedlist.List[int]] {
						return x.Target().(*doublylinkedlist.List[int])
					})
				case "treeset":
					if _, coded := x0.Target().(ordSet[float64]); coded { // float elements with both zeros under totalOrder
						runIdxEnum[ordSet[float64]](c, func(x Inst) idxEnum[ordSet[float64]] { return x.Target().(ordSet[float64]) })
						break
					}
					runIdxEnum[*treeset.Set[int]](c, func(x Inst) idxEnum[*treeset.Set[int]] { return x.Target().(*treeset.Set[int]) })
				case "linkedhashset":
					runIdxEnum[*linkedhashset.Set[int]](c, func(x Inst) idxEnum[*linkedhashset.Set[int]] { return x.Target().(*linkedhashset.Set[int]) })
				case "treemap":
					runKVEnum[*treemap.Map[int, V]](c, func(x Inst) kvEnum[*treemap.Map[int, V]] { return x.Target().(*treemap.Map[int, V]) })
				case "linkedhashmap":
					runKVEnum[*linkedhashmap.Map[int, V]](c, func(x Inst) kvEnum[*linkedhashmap.Map[int, V]] {
						return x.Target().(*linkedhashmap.Map[int, V])
					})
				case "treebidimap":
					runKVEnum[*treebidimap.Map[int, V]](c, func(x Inst) kvEnum[*treebidimap.Map[int, V]] {
						return x.Target().(*treebidimap.Map[int, V])
					})
				}
			}
		}
	}
}
