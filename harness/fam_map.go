package main

// Family MAP: key-value containers (C01 C02 C07 C09 C10).
// Keys are ints, values are of the distinct type V so that state identity can ignore them.

import (
	"encoding/json"
	"math"
	"math/rand"
	"reflect"
	"regexp"
	"strconv"

	"github.com/emirpasic/gods/v2/maps"
	"github.com/emirpasic/gods/v2/maps/hashbidimap"
	"github.com/emirpasic/gods/v2/maps/hashmap"
	"github.com/emirpasic/gods/v2/maps/linkedhashmap"
	"github.com/emirpasic/gods/v2/maps/treebidimap"
	"github.com/emirpasic/gods/v2/maps/treemap"
	"github.com/emirpasic/gods/v2/trees/avltree"
	"github.com/emirpasic/gods/v2/trees/btree"
	rbt "github.com/emirpasic/gods/v2/trees/redblacktree"
)

type mapInst struct {
	kind   string
	cmp    string // key comparator (ordered kinds)
	vcmp   string // value comparator (treebidimap)
	m      int    // B-tree order
	c      maps.Map[int, V]
	probeK []int
	name0  string
	lite   bool  // scale scripts: Keys / Values / probes only (no iterator, Each, JSON key order or shape in every observation)
	probeV []int // bidi: value universe for GetKey probes
	ctr    int   // fresh value counter (non-bidi kinds)
	shape  bool  // log the exported structure (C07)
}

func mapSorted(kind string) bool {
	switch kind {
	case "treemap", "redblacktree", "avltree", "btree", "treebidimap":
		return true
	}
	return false
}
func mapBidi(kind string) bool { return kind == "hashbidimap" || kind == "treebidimap" }

func newMap(kind, cmp, vcmp string, m int) maps.Map[int, V] {
	if isDflt(cmp) { // New(): built-in comparator, keys of some ordered type behind int codes (fam_dflt.go)
		return newDefaultMap(kind, cmp, m)
	}
	switch kind {
	case "hashmap":
		return hashmap.New[int, V]()
	case "treemap":
		return treemap.NewWith[int, V](cmpInt(cmp))
	case "linkedhashmap":
		return linkedhashmap.New[int, V]()
	case "hashbidimap":
		return hashbidimap.New[int, V]()
	case "treebidimap":
		return treebidimap.NewWith[int, V](cmpInt(cmp), cmpV(vcmp))
	case "redblacktree":
		return rbt.NewWith[int, V](cmpInt(cmp))
	case "avltree":
		return avltree.NewWith[int, V](cmpInt(cmp))
	case "btree":
		return btree.NewWith[int, V](m, cmpInt(cmp))
	}
	die("unknown map kind %s", kind)
	return nil
}

func (x *mapInst) Fam() string  { return "map" }
func (x *mapInst) Kind() string { return x.kind }
func (x *mapInst) Cfg() Ev {
	return Ev{"zero": 0, "sorted": mapSorted(x.kind), "cmp": cfgCmp(x.cmp), "linked": x.kind == "linkedhashmap",
		"bidi": mapBidi(x.kind), "vsorted": x.kind == "treebidimap", "vcmp": baseCmp(x.vcmp), "m": x.m, "mag": isMag(x.cmp),
		"aligned": !mapBidi(x.kind) && x.kind != "hashmap", "tree": treeKind(x.kind)}
}

func cfgCmp(c string) string {
	if isDflt(c) {
		return "nat" // the int codes of the keys are in cmp.Compare order
	}
	return baseCmp(c)
}

// which balanced tree carries the comparator work (C07)
func treeKind(kind string) string {
	switch kind {
	case "redblacktree", "treemap":
		return "rb"
	case "treebidimap":
		return "rb6" // one Put is up to six operations on its two red-black trees
	case "avltree":
		return "avl"
	case "btree":
		return "bt"
	}
	return ""
}
func (x *mapInst) Target() any { return x.c }
func (x *mapInst) Mask() reflect.Type {
	if mapBidi(x.kind) {
		return nil
	}
	return reflect.TypeOf(V(0))
}
func (x *mapInst) Mutates(op string) bool {
	return op == "Put" || op == "Remove" || op == "Clear" || op == "FromJSON"
}

func vints(vs []V) []int {
	out := make([]int, len(vs))
	for i, v := range vs {
		out[i] = int(v)
	}
	return out
}

type keyIter interface {
	Next() bool
	Key() int
	Value() V
}

func iterPairs(it keyIter) [][]int {
	out := [][]int{}
	for i := 0; it.Next() && i < 1<<20; i++ {
		out = append(out, []int{it.Key(), int(it.Value())})
	}
	return out
}

var reJSONKey = regexp.MustCompile(`("(?:[^"\\]|\\.)*"|-?\d+)\s*:`)

// key order of a JSON object text with scalar values, tolerant of unquoted number keys
func jsonKeyOrder(b []byte) []int {
	out := []int{}
	for _, m := range reJSONKey.FindAllSubmatch(b, -1) {
		s := string(m[1])
		if len(s) >= 2 && s[0] == '"' {
			var u string
			if json.Unmarshal(m[1], &u) == nil {
				s = u
			}
		}
		if n, err := strconv.Atoi(s); err == nil {
			out = append(out, n)
		} else {
			out = append(out, -999)
		}
	}
	return out
}

func (x *mapInst) Observe() Ev {
	c := x.c
	ks := c.Keys()
	o := Ev{"keys": ints(ks), "vals": vints(c.Values()), "size": c.Size(), "empty": c.Empty()}
	if x.lite && c.Size()%16 != 0 {
		// String() of a tree is quadratic in its size (string concatenation): in the scale scripts it is called in every
		// 16th size only; in between the name is what String() said at first (a function of the state either way)
		if x.name0 == "" {
			x.name0 = firstLine(newMap(x.kind, x.cmp, x.vcmp, x.m).String())
		}
		o["name"] = x.name0
	} else {
		o["name"] = firstLine(c.String())
	}
	ent := [][]any{} // the entries: every key Keys() lists, with what Get says about it
	for _, k := range ks {
		v, ok := c.Get(k)
		ent = append(ent, []any{k, int(v), ok})
	}
	o["ent"] = ent
	get := [][]any{}
	for _, k := range x.probeK {
		v, ok := c.Get(k)
		get = append(get, []any{k, int(v), ok})
	}
	o["get"] = get
	gk := [][]any{}
	if b, ok := c.(maps.BidiMap[int, V]); ok {
		for _, v := range x.probeV {
			k, found := b.GetKey(V(v))
			gk = append(gk, []any{v, k, found})
		}
	}
	o["getkey"] = gk
	// navigation (C02): left/right = [key, value, ok]; floor/ceil = [[probe, key, value, ok] ...]
	left, right := []any{0, 0, false}, []any{0, 0, false}
	floor, ceil := [][]any{}, [][]any{}
	hasNav, height := false, 0
	iter, each, jkeys := [][]int{}, [][]int{}, []int{}
	hasIter, hasEach, hasJ := false, false, false
	var cNav any = c
	if x.lite {
		cNav = nil
	}
	switch t := cNav.(type) {
	case *rbt.Tree[int, V]:
		hasNav, hasIter = true, true
		if n := t.Left(); n != nil {
			left = []any{n.Key, int(n.Value), true}
		}
		if n := t.Right(); n != nil {
			right = []any{n.Key, int(n.Value), true}
		}
		for _, p := range x.probeK {
			if n, ok := t.Floor(p); ok && n != nil {
				floor = append(floor, []any{p, n.Key, int(n.Value), true})
			} else {
				floor = append(floor, []any{p, 0, 0, ok})
			}
			if n, ok := t.Ceiling(p); ok && n != nil {
				ceil = append(ceil, []any{p, n.Key, int(n.Value), true})
			} else {
				ceil = append(ceil, []any{p, 0, 0, ok})
			}
		}
		iter = iterPairs(t.Iterator())
	case *avltree.Tree[int, V]:
		hasNav, hasIter = true, true
		if n := t.Left(); n != nil {
			left = []any{n.Key, int(n.Value), true}
		}
		if n := t.Right(); n != nil {
			right = []any{n.Key, int(n.Value), true}
		}
		for _, p := range x.probeK {
			if n, ok := t.Floor(p); ok && n != nil {
				floor = append(floor, []any{p, n.Key, int(n.Value), true})
			} else {
				floor = append(floor, []any{p, 0, 0, ok})
			}
			if n, ok := t.Ceiling(p); ok && n != nil {
				ceil = append(ceil, []any{p, n.Key, int(n.Value), true})
			} else {
				ceil = append(ceil, []any{p, 0, 0, ok})
			}
		}
		iter = iterPairs(t.Iterator())
	case *btree.Tree[int, V]:
		hasNav, hasIter = true, true
		// Left()/Right() return the left-most / right-most NODE; LeftKey/LeftValue the entry
		lk, lv, rk, rv := t.LeftKey(), t.LeftValue(), t.RightKey(), t.RightValue()
		if lk != nil && lv != nil {
			left = []any{lk.(int), int(lv.(V)), true}
		}
		if rk != nil && rv != nil {
			right = []any{rk.(int), int(rv.(V)), true}
		}
		// the node-returning variants must agree with the key-returning ones
		if n := t.Left(); n != nil && len(n.Entries) > 0 {
			if lk == nil || n.Entries[0].Key != lk.(int) {
				left = []any{n.Entries[0].Key, -1, false}
			}
		} else if lk != nil {
			left = []any{0, -1, false}
		}
		if n := t.Right(); n != nil && len(n.Entries) > 0 {
			if rk == nil || n.Entries[len(n.Entries)-1].Key != rk.(int) {
				right = []any{n.Entries[len(n.Entries)-1].Key, -1, false}
			}
		} else if rk != nil {
			right = []any{0, -1, false}
		}
		height = t.Height()
		iter = iterPairs(t.Iterator())
	case *treemap.Map[int, V]:
		hasNav, hasIter, hasEach = true, true, true
		if k, v, ok := t.Min(); ok {
			left = []any{k, int(v), true}
		}
		if k, v, ok := t.Max(); ok {
			right = []any{k, int(v), true}
		}
		for _, p := range x.probeK {
			k, v, ok := t.Floor(p)
			floor = append(floor, []any{p, k, int(v), ok})
			k, v, ok = t.Ceiling(p)
			ceil = append(ceil, []any{p, k, int(v), ok})
		}
		iter = iterPairs(t.Iterator())
		t.Each(func(k int, v V) { each = append(each, []int{k, int(v)}) })
	case *treebidimap.Map[int, V]:
		hasIter, hasEach = true, true
		iter = iterPairs(t.Iterator())
		t.Each(func(k int, v V) { each = append(each, []int{k, int(v)}) })
	case *linkedhashmap.Map[int, V]:
		hasIter, hasEach, hasJ = true, true, true
		iter = iterPairs(t.Iterator())
		t.Each(func(k int, v V) { each = append(each, []int{k, int(v)}) })
		if b, err := t.ToJSON(); err == nil {
			jkeys = jsonKeyOrder(b)
		} else {
			jkeys = []int{-998}
		}
	}
	// beyond the listed properties: GetNode, Node.Size, AVL Node.Next / Node.Prev
	gn, succ, nsz := [][]any{}, [][]any{}, -1
	switch t := cNav.(type) {
	case *rbt.Tree[int, V]:
		for _, p := range x.probeK {
			if n := t.GetNode(p); n != nil {
				gn = append(gn, []any{p, n.Key, true})
			} else {
				gn = append(gn, []any{p, 0, false})
			}
		}
		nsz = t.Root.Size()
	case *avltree.Tree[int, V]:
		for _, p := range x.probeK {
			if n := t.GetNode(p); n != nil {
				gn = append(gn, []any{p, n.Key, true})
				row := []any{n.Key, 0, false, 0, false}
				if nx := n.Next(); nx != nil {
					row[1], row[2] = nx.Key, true
				}
				if pv := n.Prev(); pv != nil {
					row[3], row[4] = pv.Key, true
				}
				succ = append(succ, row)
			} else {
				gn = append(gn, []any{p, 0, false})
			}
		}
		nsz = t.Root.Size()
	case *btree.Tree[int, V]:
		for _, p := range x.probeK {
			if n := t.GetNode(p); n != nil {
				k, ok := 0, false
				for _, e := range n.Entries {
					if cmpIntQuiet(baseCmp(x.cmp), e.Key, p) == 0 {
						k, ok = e.Key, true
					}
				}
				gn = append(gn, []any{p, k, ok})
			} else {
				gn = append(gn, []any{p, 0, false})
			}
		}
	}
	o["gn"], o["succ"], o["nsz"] = gn, succ, nsz
	o["left"], o["right"], o["floor"], o["ceil"], o["hasnav"], o["height"] = left, right, floor, ceil, hasNav, height
	o["iter"], o["each"], o["jkeys"], o["hasiter"], o["haseach"], o["hasj"] = iter, each, jkeys, hasIter, hasEach, hasJ
	if x.shape {
		o["shape"] = treeShape(c)
	} else {
		o["shape"] = Ev{"t": "", "n": [][]int{}, "bt": []Ev{}, "ok": true}
	}
	return o
}

// exported structure of the three trees (C07), as flat node arrays in pre-order; index 0 = nil.
//
//	binary trees: n = [[key, left, right, parent] ...]
//	B-tree:       bt = [{k: [keys], c: [children], p: parent} ...]
//
// TreeMap / TreeBidiMap do not export their tree: they contribute comparator counts only.
func treeShape(c any) Ev {
	out := Ev{"t": "", "n": [][]int{}, "bt": []Ev{}, "ok": true}
	switch t := c.(type) {
	case *rbt.Tree[int, V]:
		out["t"] = "rb"
		idx := map[*rbt.Node[int, V]]int{}
		var order []*rbt.Node[int, V]
		var walk func(n *rbt.Node[int, V], d int)
		walk = func(n *rbt.Node[int, V], d int) {
			if n == nil || d > 200 || idx[n] != 0 {
				if n != nil {
					out["ok"] = false // cycle or absurd depth
				}
				return
			}
			idx[n] = len(order) + 1
			order = append(order, n)
			walk(n.Left, d+1)
			walk(n.Right, d+1)
		}
		walk(t.Root, 0)
		ns := make([][]int, 0, len(order))
		for _, n := range order {
			ns = append(ns, []int{n.Key, idx[n.Left], idx[n.Right], idx[n.Parent]})
		}
		out["n"] = ns
	case *avltree.Tree[int, V]:
		out["t"] = "avl"
		idx := map[*avltree.Node[int, V]]int{}
		var order []*avltree.Node[int, V]
		var walk func(n *avltree.Node[int, V], d int)
		walk = func(n *avltree.Node[int, V], d int) {
			if n == nil || d > 200 || idx[n] != 0 {
				if n != nil {
					out["ok"] = false
				}
				return
			}
			idx[n] = len(order) + 1
			order = append(order, n)
			walk(n.Children[0], d+1)
			walk(n.Children[1], d+1)
		}
		walk(t.Root, 0)
		ns := make([][]int, 0, len(order))
		for _, n := range order {
			ns = append(ns, []int{n.Key, idx[n.Children[0]], idx[n.Children[1]], idx[n.Parent]})
		}
		out["n"] = ns
	case *btree.Tree[int, V]:
		out["t"] = "bt"
		idx := map[*btree.Node[int, V]]int{}
		var order []*btree.Node[int, V]
		var walk func(n *btree.Node[int, V], d int)
		walk = func(n *btree.Node[int, V], d int) {
			if n == nil || d > 200 || idx[n] != 0 {
				if n != nil {
					out["ok"] = false
				}
				return
			}
			idx[n] = len(order) + 1
			order = append(order, n)
			for _, ch := range n.Children {
				walk(ch, d+1)
			}
		}
		walk(t.Root, 0)
		ns := make([]Ev, 0, len(order))
		for _, n := range order {
			ks := []int{}
			for _, e := range n.Entries {
				if e == nil {
					out["ok"] = false
					continue
				}
				ks = append(ks, e.Key)
			}
			cs := []int{}
			for _, ch := range n.Children {
				cs = append(cs, idx[ch])
			}
			ns = append(ns, Ev{"k": ks, "c": cs, "p": idx[n.Parent]})
		}
		out["bt"] = ns
	}
	return out
}

func (x *mapInst) Do(c Call) []any {
	m := x.c
	switch c.Op {
	case "Put":
		m.Put(c.I, V(c.V))
	case "Remove":
		m.Remove(c.I)
	case "Clear":
		m.Clear()
	case "Get":
		v, ok := m.Get(c.I)
		return []any{int(v), ok}
	case "GetKey":
		k, ok := m.(maps.BidiMap[int, V]).GetKey(V(c.V))
		return []any{k, ok}
	case "Keys":
		return []any{ints(m.Keys())}
	case "Values":
		return []any{vints(m.Values())}
	case "Size":
		return []any{m.Size()}
	case "Empty":
		return []any{m.Empty()}
	case "String":
		return []any{firstLine(m.String())}
	case "FromJSON": // Vs = k1, v1, k2, v2, ... (distinct keys, distinct values)
		obj := map[string]int{}
		for i := 0; i+1 < len(c.Vs); i += 2 {
			obj[strconv.Itoa(c.Vs[i])] = c.Vs[i+1]
		}
		text := []byte("{")
		for i := 0; i+1 < len(c.Vs); i += 2 { // textual order as given (it matters for the linked map)
			if i > 0 {
				text = append(text, ',')
			}
			text = append(text, []byte(strconv.Quote(strconv.Itoa(c.Vs[i]))+":"+strconv.Itoa(c.Vs[i+1]))...)
		}
		text = append(text, '}')
		return []any{m.(jsonable).FromJSON(loadText(c, text)) == nil}
	default:
		die("map: unknown op %s", c.Op)
	}
	return nil
}

// ---------------------------------------------------------------------------------------------

type mapUniverse struct {
	kind      string
	cmp, vcmp string
	m         int
	nk, nv    int // keys 1..nk; bidi: values 1..nv
	shape     bool
	ctr       *int
}

func (u *mapUniverse) probes() (pk, pv []int) {
	for k := -1; k <= u.nk; k++ {
		pk = append(pk, k)
	}
	if mapBidi(u.kind) {
		for v := -1; v <= u.nv; v++ {
			pv = append(pv, v)
		}
	}
	return
}
func (u *mapUniverse) New() Inst {
	pk, pv := u.probes()
	return &mapInst{kind: u.kind, cmp: u.cmp, vcmp: u.vcmp, m: u.m, c: newMap(u.kind, u.cmp, u.vcmp, u.m),
		probeK: pk, probeV: pv, shape: u.shape}
}
func (u *mapUniverse) Inside(x Inst) bool { return true }
func (u *mapUniverse) Calls(x Inst) []Call {
	var cs []Call
	// keys 0..nk-1 and (bidi) values 0..nv-1: the Go zero value is a legitimate key and value
	for k := 0; k < u.nk; k++ {
		if mapBidi(u.kind) {
			for v := 0; v < u.nv; v++ {
				cs = append(cs, Call{Op: "Put", I: k, V: v})
			}
		} else {
			*u.ctr++
			cs = append(cs, Call{Op: "Put", I: k, V: 100 + *u.ctr%800}, Call{Op: "Put", I: k, V: 0})
		}
		cs = append(cs, Call{Op: "Remove", I: k}, Call{Op: "Get", I: k})
	}
	cs = append(cs, Call{Op: "Remove", I: u.nk}, Call{Op: "Remove", I: -1}, Call{Op: "Get", I: u.nk}, Call{Op: "Get", I: -1},
		Call{Op: "Get", I: math.MinInt}, Call{Op: "Remove", I: math.MaxInt}, Call{Op: "Clear"}, Call{Op: "Keys"},
		Call{Op: "Values"}, Call{Op: "Size"}, Call{Op: "Empty"}, Call{Op: "String"})
	if mapBidi(u.kind) {
		for v := -1; v <= u.nv; v++ {
			cs = append(cs, Call{Op: "GetKey", V: v})
		}
	}
	// loads: keys and values pairwise different under EVERY comparator in use (even numbers), so that the
	// outcome does not depend on Go's map iteration order; textual order descending (it matters for the linked map)
	var pairs []int
	for k, v := (u.nk-1)/2*2, 0; k >= 0; k, v = k-2, v+2 {
		if mapBidi(u.kind) && v >= u.nv {
			break
		}
		pairs = append(pairs, k, v)
	}
	if isDflt(u.cmp) {
		return cs
	}
	if treeKind(u.kind) != "" && len(pairs) > 2 {
		// the tree loaders insert in Go's map iteration order, so the SHAPE after a load of several members differs
		// from run to run: inside the tours (which replay paths) trees load one member at most
		pairs = pairs[:2]
	}
	cs = append(cs, Call{Op: "FromJSON", Vs: []int{}}, Call{Op: "FromJSON", Vs: pairs}, Call{Op: "FromJSON", Vs: pairs, S: "bad"})
	if len(pairs) > 2 {
		cs = append(cs, Call{Op: "FromJSON", Vs: pairs[2:]})
	}
	return cs
}

// random long histories: more keys than the tours, churn patterns
type mapRandom struct {
	kind      string
	cmp, vcmp string
	m         int
	nk, nv    int
	ctr       int
	shape     bool
	pattern   string // random | asc | desc | zigzag | churn
	step      int
}

func (u *mapRandom) New() Inst {
	var pk, pv []int
	for k := -1; k <= u.nk; k++ {
		pk = append(pk, k)
	}
	if mapBidi(u.kind) {
		for v := -1; v <= u.nv; v++ {
			pv = append(pv, v)
		}
	}
	u.step = 0
	return &mapInst{kind: u.kind, cmp: u.cmp, vcmp: u.vcmp, m: u.m, c: newMap(u.kind, u.cmp, u.vcmp, u.m),
		probeK: pk, probeV: pv, shape: u.shape}
}

func (u *mapRandom) Rand(x Inst, r *rand.Rand) Call {
	u.step++
	u.ctr++
	val := 100 + u.ctr%800
	if mapBidi(u.kind) {
		val = r.Intn(u.nv)
	}
	var k int
	switch u.pattern {
	case "asc":
		k = (u.step - 1) % u.nk
	case "desc":
		k = u.nk - 1 - (u.step-1)%u.nk
	case "zigzag":
		i := (u.step - 1) % u.nk
		if i%2 == 0 {
			k = i / 2
		} else {
			k = u.nk - 1 - i/2
		}
	default:
		k = r.Intn(u.nk)
	}
	p := r.Intn(20)
	fill := 9
	if u.pattern != "random" && u.pattern != "churn" && u.step <= u.nk {
		return Call{Op: "Put", I: k, V: val}
	}
	if u.pattern == "churn" {
		fill = 7
	}
	switch {
	case p < fill:
		return Call{Op: "Put", I: k, V: val}
	case p < 15:
		return Call{Op: "Remove", I: r.Intn(u.nk+1) - 0}
	case p < 17:
		return Call{Op: "Get", I: r.Intn(u.nk+2) - 1}
	case p < 18:
		if r.Intn(6) == 0 {
			return Call{Op: "Clear"}
		}
		if mapBidi(u.kind) {
			return Call{Op: "GetKey", V: r.Intn(u.nv+2) - 1}
		}
		return Call{Op: "Keys"}
	default:
		return Call{Op: []string{"Values", "Size", "Empty", "String", "Keys"}[r.Intn(5)]}
	}
}
