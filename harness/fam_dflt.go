package main

// Default constructors (New() with the built-in comparator) over several ordered key / element types: float64 with NaN,
// a NAMED float type, float32, strings, a named string type, uint8.  The containers are instantiated with that type and
// wrapped so that the map and set families see int codes 0..4 whose order is the order cmp.Compare gives the values:
//   floats : 0 -> NaN (cmp.Compare: NaN is less than every number and equal to itself), 1 -> -1.5, 2 -> 0, 3 -> 2.5, 4 -> +Inf
//   strings: "", "A", "a", "ab", "b"          uint8: 0, 1, 2, 200, 255
// The configuration name selects the type: dflt (float64), dfltN (type Celsius float64), dflt32, dfltS, dfltNS (type
// Name string), dfltU8; the trace specifications see the comparator "nat" on the codes.

import (
	"cmp"
	"math"
	"strings"

	"github.com/emirpasic/gods/v2/maps"
	"github.com/emirpasic/gods/v2/maps/treebidimap"
	"github.com/emirpasic/gods/v2/maps/treemap"
	"github.com/emirpasic/gods/v2/sets"
	"github.com/emirpasic/gods/v2/sets/treeset"
	"github.com/emirpasic/gods/v2/trees/avltree"
	"github.com/emirpasic/gods/v2/trees/btree"
	rbt "github.com/emirpasic/gods/v2/trees/redblacktree"
)

type Celsius float64
type Name string

func isDflt(c string) bool { return strings.HasPrefix(c, "dflt") }

// the default-constructor variants a tier runs
func dfltVariants(quick bool) []string {
	if quick {
		return []string{"dflt", "dfltN", "dfltS"}
	}
	return []string{"dflt", "dfltN", "dflt32", "dfltS", "dfltNS", "dfltU8"}
}

type codec[K cmp.Ordered] struct {
	vals    []K
	outside func(code int) K // probes outside the universe: values that are never stored
}

func (c *codec[K]) dec(code int) K {
	if code >= 0 && code < len(c.vals) {
		return c.vals[code]
	}
	return c.outside(code)
}
func (c *codec[K]) enc(k K) int {
	for i, g := range c.vals {
		if k == g || (k != k && g != g) {
			return i
		}
	}
	for code := -3; code < 4000; code++ {
		if code >= 0 && code < len(c.vals) {
			continue
		}
		if c.outside(code) == k {
			return code
		}
	}
	return -99
}

func floatCodec[F ~float32 | ~float64]() *codec[F] {
	return &codec[F]{[]F{F(math.NaN()), -1.5, 0, 2.5, F(math.Inf(1))}, func(code int) F { return F(code) * 1000 }}
}
func stringCodec[S ~string]() *codec[S] {
	return &codec[S]{[]S{"", "A", "a", "ab", "b"}, func(code int) S {
		if code < 0 {
			return S("!" + itoa(-code))
		}
		return S("zz" + itoa(code))
	}}
}
func uint8Codec() *codec[uint8] {
	return &codec[uint8]{[]uint8{0, 1, 2, 200, 255}, func(code int) uint8 { return uint8(100 + (code+3)%90) }}
}

type ordMap[K cmp.Ordered] struct {
	m maps.Map[K, V]
	c *codec[K]
}

func (f ordMap[K]) Put(k int, v V)          { f.m.Put(f.c.dec(k), v) }
func (f ordMap[K]) Get(k int) (V, bool)     { return f.m.Get(f.c.dec(k)) }
func (f ordMap[K]) Remove(k int)            { f.m.Remove(f.c.dec(k)) }
func (f ordMap[K]) Empty() bool             { return f.m.Empty() }
func (f ordMap[K]) Size() int               { return f.m.Size() }
func (f ordMap[K]) Clear()                  { f.m.Clear() }
func (f ordMap[K]) Values() []V             { return f.m.Values() }
func (f ordMap[K]) String() string          { return f.m.String() }
func (f ordMap[K]) ToJSON() ([]byte, error) { return nil, nil }
func (f ordMap[K]) FromJSON([]byte) error   { return nil }
func (f ordMap[K]) Keys() []int {
	out := []int{}
	for _, k := range f.m.Keys() {
		out = append(out, f.c.enc(k))
	}
	return out
}

type ordBidi[K cmp.Ordered] struct {
	ordMap[K]
	b maps.BidiMap[K, V]
}

func (f ordBidi[K]) GetKey(v V) (int, bool) {
	k, ok := f.b.GetKey(v)
	if !ok {
		return 0, false
	}
	return f.c.enc(k), true
}

func defaultMapOf[K cmp.Ordered](kind string, m int, c *codec[K]) maps.Map[int, V] {
	switch kind {
	case "treemap":
		return ordMap[K]{treemap.New[K, V](), c}
	case "redblacktree":
		return ordMap[K]{rbt.New[K, V](), c}
	case "avltree":
		return ordMap[K]{avltree.New[K, V](), c}
	case "btree":
		return ordMap[K]{btree.New[K, V](m), c}
	case "treebidimap":
		b := treebidimap.New[K, V]()
		return ordBidi[K]{ordMap[K]{b, c}, b}
	}
	die("no default-constructor variant for %s", kind)
	return nil
}

func newDefaultMap(kind, variant string, m int) maps.Map[int, V] {
	switch variant {
	case "dflt":
		return defaultMapOf(kind, m, floatCodec[float64]())
	case "dfltN":
		return defaultMapOf(kind, m, floatCodec[Celsius]())
	case "dflt32":
		return defaultMapOf(kind, m, floatCodec[float32]())
	case "dfltS":
		return defaultMapOf(kind, m, stringCodec[string]())
	case "dfltNS":
		return defaultMapOf(kind, m, stringCodec[Name]())
	case "dfltU8":
		return defaultMapOf(kind, m, uint8Codec())
	}
	die("unknown default-constructor variant %s", variant)
	return nil
}

type ordSet[K cmp.Ordered] struct {
	s sets.Set[K]
	c *codec[K]
}

func (f ordSet[K]) conv(xs []int) []K {
	out := make([]K, len(xs))
	for i, x := range xs {
		out[i] = f.c.dec(x)
	}
	return out
}
func (f ordSet[K]) Add(xs ...int)           { f.s.Add(f.conv(xs)...) }
func (f ordSet[K]) Remove(xs ...int)        { f.s.Remove(f.conv(xs)...) }
func (f ordSet[K]) Contains(xs ...int) bool { return f.s.Contains(f.conv(xs)...) }
func (f ordSet[K]) Empty() bool             { return f.s.Empty() }
func (f ordSet[K]) Size() int               { return f.s.Size() }
func (f ordSet[K]) Clear()                  { f.s.Clear() }
func (f ordSet[K]) String() string          { return f.s.String() }
func (f ordSet[K]) Values() []int {
	out := []int{}
	for _, v := range f.s.Values() {
		out = append(out, f.c.enc(v))
	}
	return out
}

type dfltSetWalker interface{ walk() (iter, each []int) }

func (f ordSet[K]) walk() (iter, each []int) {
	iter, each = []int{}, []int{}
	t := f.s.(*treeset.Set[K])
	it := t.Iterator()
	for i := 0; it.Next() && i < 1<<20; i++ {
		iter = append(iter, f.c.enc(it.Value()))
	}
	t.Each(func(i int, v K) { each = append(each, f.c.enc(v)) })
	return
}

// the variant the set universe in progress runs with (TreeSet made by New(): newSet gets no comparator then)
var curDfltSet = "dflt"

func newDefaultSet() sets.Set[int] {
	switch curDfltSet {
	case "dfltN":
		return ordSet[Celsius]{treeset.New[Celsius](), floatCodec[Celsius]()}
	case "dflt32":
		return ordSet[float32]{treeset.New[float32](), floatCodec[float32]()}
	case "dfltS":
		return ordSet[string]{treeset.New[string](), stringCodec[string]()}
	case "dfltNS":
		return ordSet[Name]{treeset.New[Name](), stringCodec[Name]()}
	case "dfltU8":
		return ordSet[uint8]{treeset.New[uint8](), uint8Codec()}
	}
	return ordSet[float64]{treeset.New[float64](), floatCodec[float64]()}
}
