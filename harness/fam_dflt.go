package main

// Default constructors (New() with the built-in comparator) over several ordered key / element types: float64 with NaN,
// a NAMED float type, float32, strings, a named string type, uint8.  The containers are instantiated with that type and
// wrapped so that the map and set families see int codes 0..4 whose order is the order cmp.Compare gives the values:
//   floats : 0 -> NaN (cmp.Compare: NaN is less than every number and equal to itself), 1 -> -1.5, 2 -> 0, 3 -> 2.5, 4 -> +Inf
//   strings: "", "A", "a", "ab", "b"          uint8: 0, 1, 2, 200, 255
// The configuration name selects the type: dflt (float64), dfltN (type Celsius float64), dflt32, dfltS, dfltNS (type
// Name string), dfltU8; the trace specifications see the comparator "nat" on the codes.

import (
	"cmp"
	"math"
	"strings"

	"github.com/emirpasic/gods/v2/lists/arraylist"
	"github.com/emirpasic/gods/v2/lists/doublylinkedlist"
	"github.com/emirpasic/gods/v2/lists/singlylinkedlist"
	"github.com/emirpasic/gods/v2/maps"
	"github.com/emirpasic/gods/v2/maps/treebidimap"
	"github.com/emirpasic/gods/v2/maps/treemap"
	"github.com/emirpasic/gods/v2/sets"
	"github.com/emirpasic/gods/v2/sets/treeset"
	"github.com/emirpasic/gods/v2/trees/avltree"
	"github.com/emirpasic/gods/v2/trees/btree"
	rbt "github.com/emirpasic/gods/v2/trees/redblacktree"
	"github.com/emirpasic/gods/v2/utils"
)

type Celsius float64
type Name string

func isDflt(c string) bool { return strings.HasPrefix(c, "dflt") }

// the default-constructor variants a tier runs
func dfltVariants(quick bool) []string {
	if quick {
		return []string{"dflt", "dfltN", "dfltS", "dfltTot"}
	}
	return []string{"dflt", "dfltN", "dflt32", "dfltS", "dfltNS", "dfltU8", "dfltTot"}
}

type codec[K cmp.Ordered] struct {
	vals    []K
	outside func(code int) K  // probes outside the universe: values that are never stored
	same    func(a, b K) bool // which stored value a result is (nil: ==, NaN being itself)
}

func (c *codec[K]) dec(code int) K {
	if code >= 0 && code < len(c.vals) {
		return c.vals[code]
	}
	return c.outside(code)
}
func (c *codec[K]) enc(k K) int {
	for i, g := range c.vals {
		if c.same != nil {
			if c.same(k, g) {
				return i
			}
		} else if k == g || (k != k && g != g) {
			return i
		}
	}
	for code := -3; code < 4000; code++ {
		if code >= 0 && code < len(c.vals) {
			continue
		}
		if c.outside(code) == k {
			return code
		}
	}
	return -99
}

func floatCodec[F ~float32 | ~float64]() *codec[F] {
	return &codec[F]{[]F{F(math.NaN()), -1.5, 0, 2.5, F(math.Inf(1))}, func(code int) F { return F(code) * 1000 }, nil}
}

// float keys -1, -0, +0, 1, 2 under a comparator that is FINER than Go's == : IEEE 754 totalOrder puts -0 before +0
// (a legal strict weak order; code that short-cuts with == instead of asking the comparator goes wrong here)
func zerosCodec() *codec[float64] {
	return &codec[float64]{[]float64{-1, math.Copysign(0, -1), 0, 1, 2}, func(code int) float64 { return float64(code) * 1000 },
		func(a, b float64) bool { return math.Float64bits(a) == math.Float64bits(b) }}
}

func totalOrder(a, b float64) int {
	key := func(f float64) int64 {
		u := int64(math.Float64bits(f))
		if u < 0 {
			u ^= math.MaxInt64
		}
		return u
	}
	return cmp.Compare(key(a), key(b))
}

func stringCodec[S ~string]() *codec[S] {
	return &codec[S]{[]S{"", "A", "a", "ab", "b"}, func(code int) S {
		if code < 0 {
			return S("!" + itoa(-code))
		}
		return S("zz" + itoa(code))
	}, nil}
}
func uint8Codec() *codec[uint8] {
	return &codec[uint8]{[]uint8{0, 1, 2, 200, 255}, func(code int) uint8 { return uint8(100 + (code+3)%90) }, nil}
}

type ordMap[K cmp.Ordered] struct {
	m maps.Map[K, V]
	c *codec[K]
}

func (f ordMap[K]) Put(k int, v V)          { f.m.Put(f.c.dec(k), v) }
func (f ordMap[K]) Get(k int) (V, bool)     { return f.m.Get(f.c.dec(k)) }
func (f ordMap[K]) Remove(k int)            { f.m.Remove(f.c.dec(k)) }
func (f ordMap[K]) Empty() bool             { return f.m.Empty() }
func (f ordMap[K]) Size() int               { return f.m.Size() }
func (f ordMap[K]) Clear()                  { f.m.Clear() }
func (f ordMap[K]) Values() []V             { return f.m.Values() }
func (f ordMap[K]) String() string          { return f.m.String() }
func (f ordMap[K]) ToJSON() ([]byte, error) { return nil, nil }
func (f ordMap[K]) FromJSON([]byte) error   { return nil }
func (f ordMap[K]) Keys() []int {
	out := []int{}
	for _, k := range f.m.Keys() {
		out = append(out, f.c.enc(k))
	}
	return out
}

type ordBidi[K cmp.Ordered] struct {
	ordMap[K]
	b maps.BidiMap[K, V]
}

func (f ordBidi[K]) GetKey(v V) (int, bool) {
	k, ok := f.b.GetKey(v)
	if !ok {
		return 0, false
	}
	return f.c.enc(k), true
}

func defaultMapOf[K cmp.Ordered](kind string, m int, c *codec[K]) maps.Map[int, V] {
	switch kind {
	case "treemap":
		return ordMap[K]{treemap.New[K, V](), c}
	case "redblacktree":
		return ordMap[K]{rbt.New[K, V](), c}
	case "avltree":
		return ordMap[K]{avltree.New[K, V](), c}
	case "btree":
		return ordMap[K]{btree.New[K, V](m), c}
	case "treebidimap":
		b := treebidimap.New[K, V]()
		return ordBidi[K]{ordMap[K]{b, c}, b}
	}
	die("no default-constructor variant for %s", kind)
	return nil
}

func newDefaultMap(kind, variant string, m int) maps.Map[int, V] {
	switch variant {
	case "dflt":
		return defaultMapOf(kind, m, floatCodec[float64]())
	case "dfltN":
		return defaultMapOf(kind, m, floatCodec[Celsius]())
	case "dflt32":
		return defaultMapOf(kind, m, floatCodec[float32]())
	case "dfltS":
		return defaultMapOf(kind, m, stringCodec[string]())
	case "dfltNS":
		return defaultMapOf(kind, m, stringCodec[Name]())
	case "dfltU8":
		return defaultMapOf(kind, m, uint8Codec())
	case "dfltTot": // not a default constructor: NewWith(totalOrder) on float keys with both zeros
		c := zerosCodec()
		switch kind {
		case "treemap":
			return ordMap[float64]{treemap.NewWith[float64, V](totalOrder), c}
		case "redblacktree":
			return ordMap[float64]{rbt.NewWith[float64, V](totalOrder), c}
		case "avltree":
			return ordMap[float64]{avltree.NewWith[float64, V](totalOrder), c}
		case "btree":
			return ordMap[float64]{btree.NewWith[float64, V](m, totalOrder), c}
		case "treebidimap":
			b := treebidimap.NewWith[float64, V](totalOrder, cmpV("nat"))
			return ordBidi[float64]{ordMap[float64]{b, c}, b}
		}
	}
	die("unknown default-constructor variant %s", variant)
	return nil
}

type ordSet[K cmp.Ordered] struct {
	s sets.Set[K]
	c *codec[K]
}

func (f ordSet[K]) conv(xs []int) []K {
	out := make([]K, len(xs))
	for i, x := range xs {
		out[i] = f.c.dec(x)
	}
	return out
}
func (f ordSet[K]) Add(xs ...int)           { f.s.Add(f.conv(xs)...) }
func (f ordSet[K]) Remove(xs ...int)        { f.s.Remove(f.conv(xs)...) }
func (f ordSet[K]) Contains(xs ...int) bool { return f.s.Contains(f.conv(xs)...) }
func (f ordSet[K]) Empty() bool             { return f.s.Empty() }
func (f ordSet[K]) Size() int               { return f.s.Size() }
func (f ordSet[K]) Clear()                  { f.s.Clear() }
func (f ordSet[K]) String() string          { return f.s.String() }
func (f ordSet[K]) Values() []int {
	out := []int{}
	for _, v := range f.s.Values() {
		out = append(out, f.c.enc(v))
	}
	return out
}

// the enumerable functions of a TreeSet behind codes (the callbacks see and return codes)
func (f ordSet[K]) ts() *treeset.Set[K] { return f.s.(*treeset.Set[K]) }
func (f ordSet[K]) Each(g func(int, int)) {
	f.ts().Each(func(i int, v K) { g(i, f.c.enc(v)) })
}
func (f ordSet[K]) Any(g func(int, int) bool) bool {
	return f.ts().Any(func(i int, v K) bool { return g(i, f.c.enc(v)) })
}
func (f ordSet[K]) All(g func(int, int) bool) bool {
	return f.ts().All(func(i int, v K) bool { return g(i, f.c.enc(v)) })
}
func (f ordSet[K]) Find(g func(int, int) bool) (int, int) {
	i, v := f.ts().Find(func(i int, v K) bool { return g(i, f.c.enc(v)) })
	if i < 0 {
		return i, 0
	}
	return i, f.c.enc(v)
}
func (f ordSet[K]) Select(g func(int, int) bool) ordSet[K] {
	return ordSet[K]{f.ts().Select(func(i int, v K) bool { return g(i, f.c.enc(v)) }), f.c}
}
func (f ordSet[K]) Map(g func(int, int) int) ordSet[K] {
	return ordSet[K]{f.ts().Map(func(i int, v K) K { return f.c.dec(g(i, f.c.enc(v))) }), f.c}
}

type dfltSetWalker interface{ walk() (iter, each []int) }

func (f ordSet[K]) walk() (iter, each []int) {
	iter, each = []int{}, []int{}
	t := f.s.(*treeset.Set[K])
	it := t.Iterator()
	for i := 0; it.Next() && i < 1<<20; i++ {
		iter = append(iter, f.c.enc(it.Value()))
	}
	t.Each(func(i int, v K) { each = append(each, f.c.enc(v)) })
	return
}

// the variant the set universe in progress runs with (TreeSet made by New(): newSet gets no comparator then)
var curDfltSet = "dflt"

func newDefaultSet() sets.Set[int] {
	switch curDfltSet {
	case "dfltN":
		return ordSet[Celsius]{treeset.New[Celsius](), floatCodec[Celsius]()}
	case "dflt32":
		return ordSet[float32]{treeset.New[float32](), floatCodec[float32]()}
	case "dfltS":
		return ordSet[string]{treeset.New[string](), stringCodec[string]()}
	case "dfltNS":
		return ordSet[Name]{treeset.New[Name](), stringCodec[Name]()}
	case "dfltU8":
		return ordSet[uint8]{treeset.New[uint8](), uint8Codec()}
	case "dfltTot":
		return ordSet[float64]{treeset.NewWith[float64](totalOrder), zerosCodec()}
	}
	return ordSet[float64]{treeset.New[float64](), floatCodec[float64]()}
}

// zeroList: a list of float64 seen as a list of the codes of zerosCodec (-1, -0, +0, 1, 2).  Sort applies the given
// comparator on codes to the floats, i.e. the natural comparator on codes is totalOrder on the values.  IndexOf / Contains
// use Go's == in the library, which cannot tell the two zeros apart: the universes never ask them about a zero.
type floatListAPI interface {
	Get(int) (float64, bool)
	Remove(int)
	Add(...float64)
	Contains(...float64) bool
	Sort(utils.Comparator[float64])
	Swap(int, int)
	Insert(int, ...float64)
	Set(int, float64)
	Empty() bool
	Size() int
	Clear()
	Values() []float64
	String() string
	IndexOf(float64) int
}
type zeroList struct {
	l floatListAPI
	c *codec[float64]
}

func (z zeroList) conv(xs []int) []float64 {
	out := make([]float64, len(xs))
	for i, x := range xs {
		out[i] = z.c.dec(x)
	}
	return out
}
func (z zeroList) Get(i int) (int, bool) {
	v, ok := z.l.Get(i)
	if !ok {
		return 0, false
	}
	return z.c.enc(v), true
}
func (z zeroList) Remove(i int)            { z.l.Remove(i) }
func (z zeroList) Add(xs ...int)           { z.l.Add(z.conv(xs)...) }
func (z zeroList) Contains(xs ...int) bool { return z.l.Contains(z.conv(xs)...) }
func (z zeroList) Sort(f utils.Comparator[int]) {
	z.l.Sort(func(a, b float64) int { return f(z.c.enc(a), z.c.enc(b)) })
}
func (z zeroList) Swap(i, k int)           { z.l.Swap(i, k) }
func (z zeroList) Insert(i int, xs ...int) { z.l.Insert(i, z.conv(xs)...) }
func (z zeroList) Set(i int, x int)        { z.l.Set(i, z.c.dec(x)) }
func (z zeroList) Empty() bool             { return z.l.Empty() }
func (z zeroList) Size() int               { return z.l.Size() }
func (z zeroList) Clear()                  { z.l.Clear() }
func (z zeroList) String() string          { return z.l.String() }
func (z zeroList) IndexOf(x int) int       { return z.l.IndexOf(z.c.dec(x)) }
func (z zeroList) Values() []int {
	out := []int{}
	for _, v := range z.l.Values() {
		out = append(out, z.c.enc(v))
	}
	return out
}

type zeroLinked struct{ zeroList }

func (z zeroLinked) Append(xs ...int) {
	z.l.(interface{ Append(...float64) }).Append(z.conv(xs)...)
}
func (z zeroLinked) Prepend(xs ...int) {
	z.l.(interface{ Prepend(...float64) }).Prepend(z.conv(xs)...)
}

func newZeroList(kind string, vs ...int) listX {
	c := zerosCodec()
	z := zeroList{c: c}
	fs := z.conv(vs)
	switch kind {
	case "arraylist":
		z.l = arraylist.New[float64](fs...)
		return z
	case "singlylinkedlist":
		z.l = singlylinkedlist.New[float64](fs...)
	case "doublylinkedlist":
		z.l = doublylinkedlist.New[float64](fs...)
	default:
		die("unknown list kind %s", kind)
	}
	return zeroLinked{z}
}
