package main

// Default constructors (New() with the built-in comparator) and float keys, NaN included.
// The containers are instantiated with float64 keys / elements and wrapped so that the map and
// set families see int codes 0..4 whose order is the order cmp.Compare gives the floats:
//   0 -> NaN (cmp.Compare: NaN is less than every number and equal to itself), 1 -> -1.5, 2 -> 0, 3 -> 2.5, 4 -> +Inf

import (
	"math"

	"github.com/emirpasic/gods/v2/maps"
	"github.com/emirpasic/gods/v2/maps/treebidimap"
	"github.com/emirpasic/gods/v2/maps/treemap"
	"github.com/emirpasic/gods/v2/sets"
	"github.com/emirpasic/gods/v2/sets/treeset"
	"github.com/emirpasic/gods/v2/trees/avltree"
	"github.com/emirpasic/gods/v2/trees/btree"
	rbt "github.com/emirpasic/gods/v2/trees/redblacktree"
)

var floatOf = []float64{math.NaN(), -1.5, 0, 2.5, math.Inf(1)}

func decF(code int) float64 {
	if code >= 0 && code < len(floatOf) {
		return floatOf[code]
	}
	return float64(code) * 1000 // probes outside the universe: -1 -> -1000 (but above NaN), 5 -> 5000 (below +Inf)
}
func encF(f float64) int {
	for i, g := range floatOf {
		if f == g || (f != f && g != g) {
			return i
		}
	}
	return int(f / 1000)
}

type floatMap struct{ m maps.Map[float64, V] }

func (f floatMap) Put(k int, v V)          { f.m.Put(decF(k), v) }
func (f floatMap) Get(k int) (V, bool)     { return f.m.Get(decF(k)) }
func (f floatMap) Remove(k int)            { f.m.Remove(decF(k)) }
func (f floatMap) Empty() bool             { return f.m.Empty() }
func (f floatMap) Size() int               { return f.m.Size() }
func (f floatMap) Clear()                  { f.m.Clear() }
func (f floatMap) Values() []V             { return f.m.Values() }
func (f floatMap) String() string          { return f.m.String() }
func (f floatMap) ToJSON() ([]byte, error) { return nil, nil }
func (f floatMap) FromJSON([]byte) error   { return nil }
func (f floatMap) Keys() []int {
	out := []int{}
	for _, k := range f.m.Keys() {
		out = append(out, encF(k))
	}
	return out
}

type floatBidi struct {
	floatMap
	b maps.BidiMap[float64, V]
}

func (f floatBidi) GetKey(v V) (int, bool) {
	k, ok := f.b.GetKey(v)
	if !ok {
		return 0, false
	}
	return encF(k), true
}

func newDefaultMap(kind string, m int) maps.Map[int, V] {
	switch kind {
	case "treemap":
		return floatMap{treemap.New[float64, V]()}
	case "redblacktree":
		return floatMap{rbt.New[float64, V]()}
	case "avltree":
		return floatMap{avltree.New[float64, V]()}
	case "btree":
		return floatMap{btree.New[float64, V](m)}
	case "treebidimap":
		b := treebidimap.New[float64, V]()
		return floatBidi{floatMap{b}, b}
	}
	die("no default-constructor variant for %s", kind)
	return nil
}

type floatSet struct{ s sets.Set[float64] }

func fl(xs []int) []float64 {
	out := make([]float64, len(xs))
	for i, x := range xs {
		out[i] = decF(x)
	}
	return out
}
func (f floatSet) Add(xs ...int)           { f.s.Add(fl(xs)...) }
func (f floatSet) Remove(xs ...int)        { f.s.Remove(fl(xs)...) }
func (f floatSet) Contains(xs ...int) bool { return f.s.Contains(fl(xs)...) }
func (f floatSet) Empty() bool             { return f.s.Empty() }
func (f floatSet) Size() int               { return f.s.Size() }
func (f floatSet) Clear()                  { f.s.Clear() }
func (f floatSet) String() string          { return f.s.String() }
func (f floatSet) Values() []int {
	out := []int{}
	for _, v := range f.s.Values() {
		out = append(out, encF(v))
	}
	return out
}

func newDefaultSet() sets.Set[int] { return floatSet{treeset.New[float64]()} }
