package main

// Large structured histories (every family): sizes well beyond the exhaustive tours, with the
// long-range patterns small tours cannot reach - grow past 16 / 32 / 64 elements, Clear or load
// and grow again, shrink to a quarter, long argument lists, both-collision Puts at the shrink
// point.  Ordinary family events with full observations, validated like any other.

import (
	"math/rand"
)

func runScript(x Inst, calls []Call) {
	defer func() { fpSkip = false }()
	pre, bad := safeObserve(x)
	if bad {
		return
	}
	rs := 1
	for i, c := range calls {
		if c.Op == "@full" { // from here on complete observations (the next call must be a mutator: its post state is compared with nothing earlier)
			if m, ok := x.(*mapInst); ok {
				m.lite = false
			}
			continue
		}
		// long scripts: the deep fingerprints (three per call) of every 8th mutating call and of every read-only call
		fpSkip = len(calls) > 400 && x.Mutates(c.Op) && i%8 != 0
		var post Ev
		if rs == 1 {
			post = step(x, c, 1, pre, nil)
			rs = 0
		} else {
			post = step(x, c, 0, nil, nil)
		}
		noteDistinct(x.Kind(), Call{Op: "big:" + c.Op, I: len(c.Vs)})
		if _, b := post["obspanic"]; b || lastPanicked {
			return
		}
	}
}

func rangeInts(a, b int) []int { // a..b-1, or descending when a > b
	var out []int
	if a <= b {
		for i := a; i < b; i++ {
			out = append(out, i)
		}
	} else {
		for i := a; i > b; i-- {
			out = append(out, i)
		}
	}
	return out
}

func bigSeq(j *jobCtx, kind string) {
	for _, n := range []int{40, 70} {
		if j.quick() && n > 40 {
			continue
		}
		probe := append(rangeInts(0, 6), 99)
		x := &seqInst{kind: kind, l: newList(kind), probe: probe}
		var cs []Call
		for i := 0; i < n; i++ { // one at a time across the capacity thresholds
			cs = append(cs, Call{Op: "Add", Vs: []int{(i * 7) % 5}})
		}
		cs = append(cs, Call{Op: "Get", I: n - 1}, Call{Op: "Get", I: n / 2}, Call{Op: "Get", I: 17}, Call{Op: "Prepend0"}, Call{Op: "Get", I: 18},
			Call{Op: "IndexOf", V: 4}, Call{Op: "Sort", Cmp: "natx"}, Call{Op: "Clear"},
			Call{Op: "Add", Vs: []int{3, 1}}, Call{Op: "Add", Vs: []int{2}}, Call{Op: "Remove", I: 1}, Call{Op: "Remove", I: 0},
			Call{Op: "Insert", I: 0, Vs: rangeInts(0, 20)}, Call{Op: "Insert", I: 10, Vs: rangeInts(30, 10)}, Call{Op: "Swap", I: 0, J: 35},
			Call{Op: "Set", I: 38, V: 5}, Call{Op: "Remove", I: 37}, Call{Op: "Sort", Cmp: "revx"}, Call{Op: "Sort", Cmp: "half"},
			Call{Op: "FromJSON", Vs: rangeInts(20, 0)}, Call{Op: "Add", Vs: []int{1}}, Call{Op: "Remove", I: 19})
		for i := 0; i < 18; i++ { // drain to a quarter and below
			cs = append(cs, Call{Op: "Remove", I: (i * 3) % (19 - i)})
		}
		cs = append(cs, Call{Op: "Values"}, Call{Op: "Add", Vs: rangeInts(0, 33)}, Call{Op: "Contains", Vs: rangeInts(0, 12)})
		if kind != "arraylist" {
			cs = append(cs, Call{Op: "Prepend", Vs: rangeInts(5, 0)}, Call{Op: "Append", Vs: rangeInts(0, 9)})
		}
		// "Prepend0" stands for Prepend(9) on the linked lists and Insert(0, 9) on the array list
		for i := range cs {
			if cs[i].Op == "Prepend0" {
				if kind == "arraylist" {
					cs[i] = Call{Op: "Insert", I: 0, Vs: []int{9}}
				} else {
					cs[i] = Call{Op: "Prepend", Vs: []int{9}}
				}
			}
		}
		runScript(x, cs)
	}
}

func bigQue(j *jobCtx, kind string) {
	put, take := "Enqueue", "Dequeue"
	if queDisc(kind) == "lifo" {
		put, take = "Push", "Pop"
	}
	caps := []int{0}
	if kind == "circularbuffer" {
		caps = []int{9, 12, 17, 40}
	}
	for _, c := range caps {
		x := &queInst{kind: kind, cap: c, q: newQue(kind, c)}
		var cs []Call
		v := 0
		next := func() Call { v++; return Call{Op: put, V: v % 97} }
		for round, k := range []int{8, 16, 5, 33} { // fill k, drain k: start / end land on every allocation frontier
			for i := 0; i < k; i++ {
				cs = append(cs, next())
			}
			for i := 0; i < k; i++ {
				cs = append(cs, Call{Op: take})
			}
			cs = append(cs, next(), Call{Op: "Peek"}, Call{Op: "Values"})
			if round == 1 {
				cs = append(cs, Call{Op: "Clear"}, next())
			}
		}
		for i := 0; i < 100; i++ { // a long fill and a long drain (more than 64 removals in a row)
			cs = append(cs, next())
		}
		for i := 0; i < 70; i++ {
			cs = append(cs, Call{Op: take})
		}
		cs = append(cs, Call{Op: "Values"}, next(), Call{Op: take}, Call{Op: "FromJSON", Vs: rangeInts(0, 12)}, next(), Call{Op: take}, Call{Op: "Values"})
		runScript(x, cs)
	}
}

func bigSet(j *jobCtx, kind string) {
	for _, cmp := range []string{"nat", "half", "revx"} {
		if kind != "treeset" && cmp != "nat" {
			continue
		}
		n := 40
		f := cmpInt(cmp)
		x := &setInst{kind: kind, cmp: cmp, s: newSet(kind, f), probe: rangeInts(-1, n+1), cmpF: f}
		var cs []Call
		for i := 0; i < n; i++ {
			cs = append(cs, Call{Op: "Add", Vs: []int{(i * 11) % n}})
		}
		cs = append(cs, Call{Op: "Contains", Vs: rangeInts(0, 12)}, Call{Op: "Remove", Vs: rangeInts(12, 2)}, // 10 arguments, reverse order
			Call{Op: "Add", Vs: rangeInts(0, 15)}, Call{Op: "Clear"}, Call{Op: "Add", Vs: rangeInts(n, 0)}) // bulk add of 40
		for i := 0; i+2 < n-7; i += 3 { // shrink to below a quarter, three members per call: some call crosses every threshold
			cs = append(cs, Call{Op: "Remove", Vs: []int{i, i + 1, i + 2}}, Call{Op: "Contains", Vs: []int{i + 3, i + 2}})
		}
		cs = append(cs, Call{Op: "Remove", Vs: []int{n - 7, n - 6, n - 5}},
			Call{Op: "Values"}, Call{Op: "Add", Vs: []int{1, 2, 1}}, Call{Op: "FromJSON", Vs: rangeInts(25, 0)},
			Call{Op: "Remove", Vs: []int{24, 3, 100, 101, 7, 102, 103, 5, 104}}, Call{Op: "Contains", Vs: []int{24, 3}}, Call{Op: "Size"})
		runScript(x, cs)
	}
}

func bigHeap(j *jobCtx, kind string) {
	for _, cmp := range []string{"prio", "maxpriox"} {
		x := newHeapInst(kind, cmp)
		var cs []Call
		put := "Push"
		take := "Pop"
		if kind == "priorityqueue" {
			put, take = "Enqueue", "Dequeue"
		}
		el := func(p, id int) int { return 10*p + id%10 }
		for i := 0; i < 22; i++ {
			cs = append(cs, Call{Op: put, Vs: []int{el(10+i, i)}})
		}
		if kind == "binaryheap" { // small values pushed in bulk onto a large heap
			cs = append(cs, Call{Op: "Push", Vs: []int{el(1, 1), el(50, 2)}}, Call{Op: "Peek"}, Call{Op: "Push", Vs: []int{el(0, 3), el(60, 4), el(2, 5)}},
				Call{Op: "Push", Vs: []int{el(70, 1), el(3, 2), el(3, 3), el(80, 4)}}, Call{Op: "Values"})
		}
		for i := 0; i < 12; i++ {
			cs = append(cs, Call{Op: take})
		}
		cs = append(cs, Call{Op: put, Vs: []int{el(5, 7)}}, Call{Op: "Values"}, Call{Op: "FromJSON", Vs: []int{el(9, 1), el(8, 1), el(7, 1), el(6, 1), el(5, 1), el(4, 1), el(3, 1), el(2, 1)}})
		for i := 0; i < 9; i++ {
			cs = append(cs, Call{Op: take})
		}
		runScript(x, cs)
	}
}

func bigMap(j *jobCtx, kind string, r *rand.Rand) {
	type bc struct {
		cmp, vcmp string
		m, n      int
	}
	cfgs := []bc{{"nat", "nat", 0, 40}}
	if mapSorted(kind) {
		cfgs = append(cfgs, bc{"halfx", "nat", 0, 40})
	}
	if kind == "btree" {
		cfgs = []bc{{"nat", "", 3, 40}, {"nat", "", 7, 70}, {"halfx", "", 9, 70}, {"nat", "", 16, 70}}
	}
	if kind == "hashbidimap" || kind == "treebidimap" || kind == "linkedhashmap" || kind == "hashmap" {
		cfgs = append(cfgs, bc{cfgs[0].cmp, "nat", 0, 71}) // past 64 entries (71: val() below stays a permutation)
	}
	for _, c := range cfgs {
		n := c.n
		x := &mapInst{kind: kind, cmp: c.cmp, vcmp: c.vcmp, m: c.m, c: newMap(kind, c.cmp, c.vcmp, c.m), probeK: rangeInts(-1, n+1), shape: treeKind(kind) != ""}
		bidi := mapBidi(kind)
		if bidi {
			x.probeV = rangeInts(-1, n+1)
		}
		val := func(k int) int {
			if bidi {
				return (k*7 + 3) % n // a permutation of 0..n-1 (n is not a multiple of 7)
			}
			return 100 + k
		}
		var cs []Call
		for k := 0; k < n; k++ {
			cs = append(cs, Call{Op: "Put", I: (k * 13) % n, V: val((k * 13) % n)})
		}
		cs = append(cs, Call{Op: "Keys"}, Call{Op: "Values"}, Call{Op: "Clear"})
		for k := n - 1; k >= 0; k-- {
			cs = append(cs, Call{Op: "Put", I: k, V: val(k)})
		}
		cs = append(cs, Call{Op: "Keys"}, Call{Op: "Get", I: n / 2})
		last := n/4 + 4
		for k := n - 1; k > last; k-- { // shrink to a little above a quarter of the peak ...
			cs = append(cs, Call{Op: "Remove", I: k})
		}
		// ... then walk down across the quarter with Puts whose key AND value both belong to other pairs (bidi: each
		// evicts one pair, so the size drops by one per call), then a re-Put and removals of absent keys
		for t := 0; t < 8; t++ {
			cs = append(cs, Call{Op: "Put", I: last - 2*t, V: val(last - 2*t - 1)}, Call{Op: "Get", I: last - 2*t - 1})
		}
		cs = append(cs, Call{Op: "Put", I: 0, V: val(1)}, Call{Op: "Keys"}, Call{Op: "Put", I: 2, V: val(2)}, Call{Op: "Remove", I: n + 5},
			Call{Op: "Remove", I: 3}, Call{Op: "Put", I: 3, V: val(3)}, Call{Op: "Values"}, Call{Op: "Size"})
		runScript(x, cs)
	}
}

// bigStatePath builds one larger state of a universe's container kind (about 40 elements): used by the
// families that visit states rather than histories (readers, alias, JSON round trips)
func bigStatePath(x0 Inst) []Call {
	var big []Call
	switch t := x0.(type) {
	case *seqInst:
		for i := 0; i < 40; i++ {
			big = append(big, Call{Op: "Add", Vs: []int{(i * 7) % 11}})
		}
	case *queInst:
		put := "Enqueue"
		if queDisc(t.kind) == "lifo" {
			put = "Push"
		}
		for i := 0; i < 40 && (t.kind != "circularbuffer" || i < t.cap+2); i++ {
			big = append(big, Call{Op: put, V: i % 7})
		}
	case *heapInst:
		put := "Push"
		if t.kind == "priorityqueue" {
			put = "Enqueue"
		}
		for i := 0; i < 40; i++ {
			big = append(big, Call{Op: put, Vs: []int{10*(1+(i*5)%9) + i%10}})
		}
	case *setInst:
		big = append(big, Call{Op: "Add", Vs: rangeInts(40, 0)})
	case *mapInst:
		if mapBidi(t.kind) {
			return nil // the bidi universes are 3 x 3
		}
		for i := 0; i < 40; i++ {
			big = append(big, Call{Op: "Put", I: (i * 13) % 40, V: 100 + i})
		}
	}
	return big
}
