package main

// Family JSON: serialisation round trips (C11) and loading over prior content (C12), all 21 kinds.
//
// The harness logs what encoding/json (trusted instrument) says about a text: validity, top-level
// kind, reference decoding ("denotation").  What must hold between the container states and those
// observations is stated in spec/TraceJSON.tla and decided by TLC.

import (
	"bytes"
	"cmp"
	"encoding/json"
	"fmt"
	"math"
	"math/rand"
	"reflect"
	"sort"
	"strings"

	"github.com/emirpasic/gods/v2/lists/arraylist"
	"github.com/emirpasic/gods/v2/lists/doublylinkedlist"
	"github.com/emirpasic/gods/v2/lists/singlylinkedlist"
	"github.com/emirpasic/gods/v2/maps/hashbidimap"
	"github.com/emirpasic/gods/v2/maps/hashmap"
	"github.com/emirpasic/gods/v2/maps/linkedhashmap"
	"github.com/emirpasic/gods/v2/maps/treebidimap"
	"github.com/emirpasic/gods/v2/maps/treemap"
	"github.com/emirpasic/gods/v2/queues/arrayqueue"
	"github.com/emirpasic/gods/v2/queues/circularbuffer"
	"github.com/emirpasic/gods/v2/queues/linkedlistqueue"
	"github.com/emirpasic/gods/v2/queues/priorityqueue"
	"github.com/emirpasic/gods/v2/sets/hashset"
	"github.com/emirpasic/gods/v2/sets/linkedhashset"
	"github.com/emirpasic/gods/v2/sets/treeset"
	"github.com/emirpasic/gods/v2/stacks/arraystack"
	"github.com/emirpasic/gods/v2/stacks/linkedliststack"
	"github.com/emirpasic/gods/v2/trees/avltree"
	"github.com/emirpasic/gods/v2/trees/binaryheap"
	"github.com/emirpasic/gods/v2/trees/btree"
	rbt "github.com/emirpasic/gods/v2/trees/redblacktree"
)

type jsonable interface {
	ToJSON() ([]byte, error)
	FromJSON([]byte) error
}

// content of a container as a uniform sequence in iteration order:
//
//	value containers: elements (heap elements coded 10*p+id); key-value containers: [key, value] pairs
func contentOf(x Inst) []any {
	out := []any{}
	switch t := x.(type) {
	case *seqInst:
		for _, v := range t.l.Values() {
			out = append(out, v)
		}
	case *queInst:
		for _, v := range t.q.Values() {
			out = append(out, v)
		}
	case *setInst:
		for _, v := range t.s.Values() {
			out = append(out, v)
		}
	case *heapInst:
		var vs []PE
		if t.h != nil {
			vs = t.h.Values()
		} else {
			vs = t.q.Values()
		}
		for _, v := range vs {
			out = append(out, encPE(v))
		}
	case *mapInst:
		for _, k := range t.c.Keys() {
			v, _ := t.c.Get(k)
			out = append(out, []int{k, int(v)})
		}
	}
	return out
}

func isKV(x Inst) bool { _, ok := x.(*mapInst); return ok }

// ordering discipline of a kind for the comparison of contents
func jsonDisc(kind string) string {
	switch kind {
	case "hashset", "hashmap", "hashbidimap":
		return "unordered"
	case "binaryheap", "priorityqueue":
		return "heap"
	case "arraystack", "linkedliststack":
		return "stack"
	case "circularbuffer":
		return "ring"
	case "treeset":
		return "sortedset"
	case "linkedhashset":
		return "linkedset"
	case "treemap", "redblacktree", "avltree", "btree":
		return "sortedmap"
	case "linkedhashmap":
		return "linkedmap"
	case "treebidimap":
		return "sortedbidi"
	}
	return "seq" // lists and the two plain queues
}

func jsonCfg(x Inst) Ev {
	c := x.Cfg()
	c["disc"] = jsonDisc(x.Kind())
	c["kv"] = isKV(x)
	for _, k := range []string{"cmp", "vcmp"} {
		if _, ok := c[k]; !ok {
			c[k] = ""
		}
	}
	for _, k := range []string{"cap", "m"} {
		if _, ok := c[k]; !ok {
			c[k] = 0
		}
	}
	for _, k := range []string{"sorted", "linked", "bidi", "vsorted"} {
		if _, ok := c[k]; !ok {
			c[k] = false
		}
	}
	c["zero"] = 0
	return c
}

func topKind(b []byte) string {
	t := bytes.TrimSpace(b)
	if len(t) == 0 {
		return "other"
	}
	switch t[0] {
	case '[':
		return "array"
	case '{':
		return "object"
	}
	return "other"
}

// drain removes everything with Pop / Dequeue and returns the sequence (queues, stacks, heaps)
func drain(x Inst) []any {
	out := []any{}
	switch t := x.(type) {
	case *queInst:
		take := "Dequeue"
		if queDisc(t.kind) == "lifo" {
			take = "Pop"
		}
		for i := 0; i < 1000; i++ {
			r := t.Do(Call{Op: take})
			if !r[1].(bool) {
				break
			}
			out = append(out, r[0])
		}
	case *heapInst:
		take := "Dequeue"
		if t.h != nil {
			take = "Pop"
		}
		for i := 0; i < 1000; i++ {
			r := t.Do(Call{Op: take})
			if !r[1].(bool) {
				break
			}
			out = append(out, encPE(r[0].(PE)))
		}
	}
	return out
}

// reference decoding of a text for a kind (trusted instrument: encoding/json):
//
//	value containers: the elements in textual order; key-value: [key, value] pairs in textual order
func refDecode(x Inst, text []byte) (ref []any, ok bool) {
	ref = []any{}
	switch x.(type) {
	case *mapInst:
		// token stream keeps textual order and duplicates
		dec := json.NewDecoder(bytes.NewReader(text))
		tok, err := dec.Token()
		if err != nil {
			return ref, false
		}
		if tok == nil { // null denotes the empty map
			if _, err := dec.Token(); err == nil || err.Error() != "EOF" {
				return ref, false
			}
			return ref, true
		}
		if d, isD := tok.(json.Delim); !isD || d != '{' {
			return ref, false
		}
		for dec.More() {
			kt, err := dec.Token()
			if err != nil {
				return []any{}, false
			}
			ks, isS := kt.(string)
			if !isS {
				return []any{}, false
			}
			var k int
			if _, err := fmt.Sscanf(ks, "%d", &k); err != nil || fmt.Sprint(k) != ks {
				// encoding/json accepts exactly the decimal integers strconv.ParseInt accepts
				var probe map[int]int
				if json.Unmarshal([]byte(`{`+string(mustJSON(ks))+`:0}`), &probe) != nil {
					return []any{}, false
				}
				for kk := range probe {
					k = kk
				}
			}
			var v int
			if err := dec.Decode(&v); err != nil {
				return []any{}, false
			}
			ref = append(ref, []int{k, v})
		}
		if _, err := dec.Token(); err != nil {
			return []any{}, false
		}
		if dec.More() {
			return []any{}, false
		}
		// the whole text must be one valid JSON value
		var probe map[int]int
		if json.Unmarshal(text, &probe) != nil {
			return []any{}, false
		}
		return ref, true
	case *heapInst:
		var vs []PE
		if json.Unmarshal(text, &vs) != nil {
			return ref, false
		}
		for _, v := range vs {
			ref = append(ref, encPE(v))
		}
		return ref, true
	default:
		var vs []int
		if json.Unmarshal(text, &vs) != nil {
			return ref, false
		}
		for _, v := range vs {
			ref = append(ref, v)
		}
		return ref, true
	}
}

// Serialisations that FAIL (elements encoding/json cannot represent: NaN, +Inf) made right before the serialisation under
// test, on other containers of every kind: an error path must leave nothing behind that a later, unrelated ToJSON picks
// up (package-level buffers, pools).  Errors are expected here; a panic is not (it lands in the event being built).
func poisonJSON() {
	nan, inf := math.NaN(), math.Inf(1)
	fc := cmp.Compare[float64]
	for _, c := range []any{
		arraylist.New(1.5, nan), singlylinkedlist.New(1.5, inf), doublylinkedlist.New(nan, 2.5),
		hashset.New(1.5, inf), linkedhashset.New(1.5, nan), treeset.NewWith(fc, 1.5, inf),
		func() any { s := arraystack.New[float64](); s.Push(1.5); s.Push(nan); return s }(),
		func() any { s := linkedliststack.New[float64](); s.Push(1.5); s.Push(inf); return s }(),
		func() any { q := arrayqueue.New[float64](); q.Enqueue(1.5); q.Enqueue(nan); return q }(),
		func() any { q := linkedlistqueue.New[float64](); q.Enqueue(1.5); q.Enqueue(inf); return q }(),
		func() any { q := circularbuffer.New[float64](3); q.Enqueue(1.5); q.Enqueue(nan); return q }(),
		func() any { q := priorityqueue.NewWith(fc); q.Enqueue(1.5); q.Enqueue(inf); return q }(),
		func() any { h := binaryheap.NewWith(fc); h.Push(1.5); h.Push(inf); return h }(),
		func() any { m := hashmap.New[string, float64](); m.Put("x", 1.5); m.Put("y", nan); return m }(),
		func() any { m := treemap.New[string, float64](); m.Put("x", 1.5); m.Put("y", inf); return m }(),
		func() any { m := linkedhashmap.New[string, float64](); m.Put("x", 1.5); m.Put("y", nan); return m }(),
		func() any { m := hashbidimap.New[string, float64](); m.Put("x", 1.5); m.Put("y", inf); return m }(),
		func() any { m := treebidimap.New[string, float64](); m.Put("x", 1.5); m.Put("y", inf); return m }(),
		func() any { m := rbt.New[string, float64](); m.Put("x", 1.5); m.Put("y", nan); return m }(),
		func() any { m := avltree.New[string, float64](); m.Put("x", 1.5); m.Put("y", inf); return m }(),
		func() any { m := btree.New[string, float64](3); m.Put("x", 1.5); m.Put("y", nan); return m }(),
	} {
		c.(jsonable).ToJSON()
		json.Marshal(c)
	}
}

func mustJSON(v any) []byte { b, _ := json.Marshal(v); return b }

func safeTo(x Inst) (b []byte, errS string, pan bool) {
	j, ok := x.Target().(jsonable)
	if !ok {
		return nil, "not jsonable", true
	}
	ci := invoke(Ev{"op": "ToJSON", "kind": x.Kind()}, func() {
		var err error
		b, err = j.ToJSON()
		if err != nil {
			errS = err.Error()
		}
	})
	return b, errS, ci.Panic
}

// ---------------------------------------------------------------------------------------------
// universes whose states the JSON family visits (the same bounded universes as the other families)

func jsonUniverses(j *jobCtx) []Universe {
	q := j.quick()
	pick := func(a, b int) int {
		if q {
			return a
		}
		return b
	}
	ctr := new(int)
	var us []Universe
	add := func(kind string, u Universe) {
		if j.want(kind) {
			us = append(us, u)
		}
	}
	for _, k := range []string{"arraylist", "singlylinkedlist", "doublylinkedlist"} {
		add(k, &seqUniverse{kind: k, vals: []int{1, 2, 3}, maxLen: pick(2, 3), argLen: 1, cmps: []string{"nat"}})
	}
	for _, k := range []string{"arraystack", "linkedliststack", "arrayqueue", "linkedlistqueue"} {
		add(k, &queUniverse{kind: k, maxLen: pick(3, 4), nval: 3})
	}
	for c := 1; c <= pick(3, 5); c++ {
		add("circularbuffer", &queUniverse{kind: "circularbuffer", cap: c, maxLen: c, nval: 3})
	}
	for _, k := range []string{"binaryheap", "priorityqueue"} {
		add(k, &heapUniverse{kind: k, cmp: "prioid", elems: []int{11, 12, 21, 31}, maxLen: pick(3, 4)})
		add(k, &heapUniverse{kind: k, cmp: "maxprio", elems: []int{11, 21, 31}, maxLen: 3})
		// distinguishable elements that compare equal: the dequeue order after a reload must be the same
		add(k, &heapUniverse{kind: k, cmp: "prio", elems: []int{11, 12, 21, 22}, maxLen: 4})
	}
	add("hashset", &setUniverse{kind: "hashset", n: pick(3, 4), argLen: 1})
	add("linkedhashset", &setUniverse{kind: "linkedhashset", n: pick(3, 4), argLen: 1})
	add("treeset", &setUniverse{kind: "treeset", cmp: "nat", n: pick(4, 5), argLen: 1})
	add("treeset", &setUniverse{kind: "treeset", cmp: "rev", n: 3, argLen: 1})
	add("hashmap", &mapUniverse{kind: "hashmap", nk: 3, ctr: ctr})
	add("linkedhashmap", &mapUniverse{kind: "linkedhashmap", nk: 3, ctr: ctr})
	add("treemap", &mapUniverse{kind: "treemap", cmp: "nat", nk: pick(4, 5), ctr: ctr})
	add("treemap", &mapUniverse{kind: "treemap", cmp: "rev", nk: 3, ctr: ctr})
	add("hashbidimap", &mapUniverse{kind: "hashbidimap", nk: 3, nv: 3, ctr: ctr})
	add("treebidimap", &mapUniverse{kind: "treebidimap", cmp: "nat", vcmp: "nat", nk: 3, nv: 3, ctr: ctr})
	add("treebidimap", &mapUniverse{kind: "treebidimap", cmp: "half", vcmp: "nat", nk: 3, nv: 3, ctr: ctr})
	add("treemap", &mapUniverse{kind: "treemap", cmp: "halfx", nk: 3, ctr: ctr})
	add("redblacktree", &mapUniverse{kind: "redblacktree", cmp: "nat", nk: pick(5, 6), ctr: ctr})
	add("redblacktree", &mapUniverse{kind: "redblacktree", cmp: "rev", nk: 3, ctr: ctr})
	add("avltree", &mapUniverse{kind: "avltree", cmp: "nat", nk: pick(5, 6), ctr: ctr})
	for m := 3; m <= pick(4, 6); m++ {
		add("btree", &mapUniverse{kind: "btree", cmp: "nat", m: m, nk: pick(5, 7), ctr: ctr})
	}
	return us
}

var jsonKinds = []string{"arraylist", "singlylinkedlist", "doublylinkedlist", "hashset", "treeset", "linkedhashset",
	"arraystack", "linkedliststack", "arrayqueue", "linkedlistqueue", "circularbuffer", "priorityqueue", "binaryheap",
	"hashmap", "treemap", "linkedhashmap", "hashbidimap", "treebidimap", "redblacktree", "avltree", "btree"}

func init() {
	jobs["json"] = jobJSON
	jobs["jf"] = jobJSONFollow
	kindsOf["json"] = jsonKinds
	kindsOf["jf"] = jsonKinds
}

// ---------------------------------------------------------------------------------------------
// C11 round trip: one event per visited state

var otherPaths [][]Call // states serialised in between, see "stable"

func roundTrip(u Universe, path []Call) {
	x := replay(u, path)
	e := Ev{"fam": "json", "kind": x.Kind(), "cfg": jsonCfg(x), "op": "RoundTrip", "rs": 1, "timeout": false, "obsbad": false,
		"panic": false, "pmsg": "", "out": 0}
	before := capSize()
	orig := contentOf(x)
	e["orig"] = orig
	e["size"] = sizeOf(x)
	if pci := invoke(e, poisonJSON); pci.Panic {
		e["panic"], e["pmsg"] = true, "failing ToJSON of another container: "+pci.PMsg
	}
	text, errS, pan := safeTo(x)
	pan = pan || e["panic"] == true
	e["err"] = errS != "" || pan
	e["panic"] = pan
	e["text"] = string(text)
	// the returned bytes belong to the caller: serialising other containers (or this one again) must not change them
	saved := string(text)
	for _, op := range otherPaths {
		safeTo(replay(u, op))
	}
	e["stable"] = string(text) == saved
	e["valid"] = json.Valid(text)
	e["jkind"] = topKind(text)
	// json.Marshal of the container must give the same text (as parsed values for unordered kinds)
	var mb []byte
	var merr error
	mci := invoke(e, func() { mb, merr = json.Marshal(x.Target()) })
	eq := merr == nil && !mci.Panic && bytes.Equal(mb, text)
	if !eq && merr == nil && !mci.Panic && jsonDisc(x.Kind()) == "unordered" {
		var a, b any
		if json.Unmarshal(mb, &a) == nil && json.Unmarshal(text, &b) == nil {
			if aa, ok := a.([]any); ok {
				if bb, ok := b.([]any); ok {
					eq = sameBagAny(aa, bb)
				}
			} else {
				eq = reflect.DeepEqual(a, b)
			}
		}
	}
	e["eqmarshal"] = eq
	// load the text into fresh containers of the same kind and configuration
	load := func(viaUnmarshal bool) (bool, []any, int, []any) {
		y := u.New()
		var lerr error
		ci := invoke(e, func() {
			if viaUnmarshal {
				lerr = json.Unmarshal(text, y.Target())
			} else {
				lerr = y.Target().(jsonable).FromJSON(text)
			}
		})
		if ci.Panic {
			e["panic"] = true
			e["pmsg"] = ci.PMsg
		}
		c := contentOf(y)
		sz := sizeOf(y)
		return lerr != nil || ci.Panic, c, sz, drain(y)
	}
	le1, c1, s1, d1 := load(false)
	le2, c2, s2, d2 := load(true)
	e["loaderr"], e["fresh"], e["fsize"], e["fdrain"] = le1, c1, s1, d1
	e["loaderr2"], e["fresh2"], e["fsize2"], e["fdrain2"] = le2, c2, s2, d2
	e["odrain"] = drain(x)
	e["out"] = int(capSize() - before)
	emit(e)
	distinct["rt|"+x.Kind()+"|"+string(text)] = struct{}{}
}

func sizeOf(x Inst) int {
	switch t := x.(type) {
	case *seqInst:
		return t.l.Size()
	case *queInst:
		return t.q.Size()
	case *setInst:
		return t.s.Size()
	case *heapInst:
		if t.h != nil {
			return t.h.Size()
		}
		return t.q.Size()
	case *mapInst:
		return t.c.Size()
	}
	return -1
}

func sameBagAny(a, b []any) bool {
	if len(a) != len(b) {
		return false
	}
	ka := make([]string, len(a))
	kb := make([]string, len(b))
	for i := range a {
		ka[i] = fmt.Sprint(a[i])
		kb[i] = fmt.Sprint(b[i])
	}
	sort.Strings(ka)
	sort.Strings(kb)
	return reflect.DeepEqual(ka, kb)
}

// ---------------------------------------------------------------------------------------------
// C12 loading: corpus of inputs per kind

func corpus(x Inst, r *rand.Rand, own []string, thorough bool) []string {
	var c []string
	common := []string{"null", "", " ", "1", `"abc"`, "tru", "[1,2", `{"1":10`, "[1,2,]", "nul", "\x00\xff\xfe", "[[1]]", `{"a":{"b":1}}`,
		"true", "[]x", "{}{}", " null ", "[]]", "[] ]", "null]", "null}", "{}}", "[1,2]]", "[1,2]\n}", `{"1":10}}`, `{"1":10}]`, "[1,2],", "[1,2] [3]"}
	if isKV(x) {
		c = []string{"{}", " { } ", `{"1":10}`, `{"2":20,"1":10}`, `{"1":10,"2":20,"3":30}`, `{"3":30,"1":10,"2":20}`,
			`{"1":10,"1":11}`, `{"1":10,"2":20,"1":12}`, `{"1":10,"2":10}`, `{"1":10,"2":10,"3":10}`, `{"2":7,"1":7,"3":8}`,
			"[]", "[1]", `{"1":"x"}`, `{"1":10,"2":"x"}`, `{"x":1}`, `{"1":10,"x":1}`, `{"1":1.5}`, `{"1.5":1}`, `{"1":null}`,
			`{"01":1}`, `{"-1":5,"0":6}`, `{"1":10,"2":20}garbage`, `{"1":99999999999999999999}`,
			`{"0":1,"1":2,"2":3}`, `{"1":5,"0":6,"3":7,"2":8}`, `{"0":4,"1":4}`,
			// member names in another spelling that encoding/json accepts for integer keys, several members, not in key order
			`{"003":30,"001":10,"002":20,"4":40}`, `{"5":50,"+3":30,"-0":0,"2":20}`, `{"007":7,"8":8}`, `{"8":8,"007":7}`, `{"1":10,"01":11}`,
			`{"2":20,"+1":10,"3":30}`}
	} else if _, ok := x.(*heapInst); ok {
		c = []string{"[]", ` [ ] `, `[{"p":1,"id":1}]`, `[{"p":3,"id":1},{"p":1,"id":1}]`, `[{"p":3,"id":1},{"p":2,"id":1},{"p":1,"id":1}]`,
			`[{"p":2,"id":1},{"p":2,"id":2},{"p":1,"id":1},{"p":1,"id":2}]`, `[{"p":1,"id":1},{"p":1,"id":1}]`,
			`[{"p":5,"id":1},{"p":4,"id":1},{"p":3,"id":1},{"p":2,"id":1},{"p":1,"id":1}]`,
			"{}", `[{"p":1,"id":1},"x",{"p":2,"id":1}]`, `[{"p":"x"}]`, `[1]`, `[{"p":1,"id":1}`, `[null]`, `[{}]`}
	} else {
		c = []string{"[]", " [ ] ", "[1]", "[3,1,2]", "[2,2,1]", "[1,2,3,1,2,3]", "[5,4,3,2,1,6,7]", "[3,2,1]", "{}", `{"a":1}`,
			`[1,"x",3]`, `["x"]`, `[7,"x",9,10]`, `[1,2,3,"x"]`, "[1.5]", "[1e2]", "[null]", "[1,null,2]", "[-1,0]",
			"[99999999999999999999]", "[1,2]garbage", "[1 2]", "[true]"}
	}
	c = append(c, common...)
	c = append(c, own...)
	if thorough {
		for i := 0; i < 40; i++ {
			n := r.Intn(12)
			b := make([]byte, n)
			alphabet := `[]{}",:0123456789 nulltruefalse-.eE\x`
			for k := range b {
				b[k] = alphabet[r.Intn(len(alphabet))]
			}
			c = append(c, string(b))
		}
		// mutations of valid texts: truncate, replace one element by a string
		for _, t := range append([]string{}, c[:8]...) {
			if len(t) > 2 {
				c = append(c, t[:len(t)/2], t[:len(t)-1], strings.Replace(t, "1", `"x"`, 1))
			}
		}
	}
	return c
}

// Texts of exact lengths around the sizes at which a reader's buffer fills (multiples of 128 up to 4 KiB, powers of two
// and 512 * (2^k - 1), the chunk ends of encoding/json's Decoder, up to 64 KiB): a valid document padded with white space
// inside, or behind its closing bracket, to end exactly there - alone (it must load) and followed by garbage (it must not)
func lengthCorpus(x Inst) []string {
	head, tail := "[1,", "2]"
	if isKV(x) {
		head, tail = `{"1":10,`, `"2":20}`
	} else if _, ok := x.(*heapInst); ok {
		head, tail = `[{"p":1,"id":1},`, `{"p":2,"id":1}]`
	}
	lens := map[int]bool{}
	for k := 1; k <= 32; k++ {
		for d := -1; d <= 1; d++ {
			lens[k*128+d] = true
		}
	}
	for k := 1; k <= 7; k++ {
		for d := -1; d <= 1; d++ {
			lens[512*(1<<k-1)+d] = true
			lens[512<<k+d] = true
		}
	}
	var ls []int
	for l := range lens {
		ls = append(ls, l)
	}
	sort.Ints(ls)
	var out []string
	for _, l := range ls {
		pad := l - len(head) - len(tail)
		if pad < 3 {
			continue
		}
		inside := head + strings.Repeat(" ", pad) + tail       // the closing bracket is byte l
		behind := head + tail + strings.Repeat(" ", pad)       // white space up to byte l
		nl := head + strings.Repeat("\n", pad-1) + tail + "\n" // closing bracket at l-1, a line feed at l
		out = append(out, inside, inside+"x", inside+" [7]", inside+"]", behind, behind+"x", behind+",1", nl+"}", nl)
	}
	return out
}

func loadEvent(u Universe, path []Call, text string, viaUnmarshal bool) {
	x := replay(u, path)
	op := "FromJSON"
	if viaUnmarshal {
		op = "Unmarshal"
	}
	e := Ev{"fam": "json", "kind": x.Kind(), "cfg": jsonCfg(x), "op": op, "rs": 1, "timeout": false, "obsbad": false,
		"text": text}
	pre := contentOf(x)
	preObs, _ := safeObserve(x)
	fp0 := fullFP(x)
	ref, has := refDecode(x, []byte(text))
	var lerr error
	// loads that FAIL half way, and one that succeeds, on OTHER containers of the same kind right before the load under test:
	// nothing a loader leaves behind (decode buffers, spare arrays, pools) may reach another container
	others := []Inst{u.New(), replay(u, path)}
	ci := invoke(e, func() {
		for i, o := range others {
			for _, bad := range []string{`[7,8,"x"]`, `{"7":8,"9":"x"}`, `[5,6`, text} {
				if i == 0 || bad != text {
					o.Target().(jsonable).FromJSON([]byte(bad))
				}
			}
		}
		if viaUnmarshal {
			lerr = json.Unmarshal([]byte(text), x.Target())
		} else {
			lerr = x.Target().(jsonable).FromJSON([]byte(text))
		}
	})
	e["panic"], e["pmsg"], e["out"] = ci.Panic, ci.PMsg, ci.Out
	e["err"] = lerr != nil
	e["pre"], e["ref"], e["hasref"] = pre, ref, has
	var post []any
	var postObs Ev
	oci := invoke(e, func() { post = contentOf(x); postObs, _ = safeObserve(x) })
	if oci.Panic {
		e["obsbad"] = true
		post = []any{}
	}
	e["post"] = post
	e["psize"] = sizeOf(x)
	nv, nk := -1, -1
	invoke(e, func() {
		if v, ok := callSlice(x, "Values"); ok {
			nv = v.Len()
		}
		if k, ok := callSlice(x, "Keys"); ok {
			nk = k.Len()
		}
	})
	e["nvals"], e["nkeys"] = nv, nk // len(Values()), len(Keys()) (-1: no such method)
	// "exactly as it was before": full observation and deep fingerprint
	e["sameobs"] = reflect.DeepEqual(normObs(x, preObs), normObs(x, postObs))
	e["samefp"] = fp0 == fullFP(x)
	emit(e)
	cls := "ok"
	if lerr != nil {
		cls = "err"
	}
	distinct["ld|"+x.Kind()+"|"+cls+"|"+text] = struct{}{}
}

// observations of hash kinds list keys in an unspecified order: normalise before comparing
func normObs(x Inst, o Ev) Ev {
	if o == nil {
		return nil
	}
	if jsonDisc(x.Kind()) != "unordered" {
		return o
	}
	n := Ev{}
	for k, v := range o {
		switch k {
		case "keys", "vals":
			if xs, ok := v.([]int); ok {
				ys := append([]int{}, xs...)
				sort.Ints(ys)
				n[k] = ys
				continue
			}
		case "ent": // [[key, value, found] ...] in the order of Keys()
			if xs, ok := v.([][]any); ok {
				ys := append([][]any{}, xs...)
				sort.SliceStable(ys, func(a, b int) bool { return fmt.Sprint(ys[a]) < fmt.Sprint(ys[b]) })
				n[k] = ys
				continue
			}
		}
		n[k] = v
	}
	return n
}

func jobJSON(j *jobCtx) {
	lengthDone := map[string]bool{}
	strRoundTrips(j)
	structRoundTrips(j)
	for _, u := range jsonUniverses(j) {
		x0 := u.New()
		paths := enumStates(u, j.maxStates()/8, isMut(x0))
		if bp := bigStatePath(x0); bp != nil {
			paths = append(paths, bp)
		}
		// own outputs of (other) states are part of the load corpus
		var own []string
		for i, p := range paths {
			if i%7 == 3 || i < 3 {
				if b, _, pan := safeTo(replay(u, p)); !pan && b != nil && len(own) < 6 {
					own = append(own, string(b))
				}
			}
		}
		otherPaths = nil
		for i := len(paths) - 1; i >= 0 && len(otherPaths) < 2; i -= 1 + len(paths)/3 {
			otherPaths = append(otherPaths, paths[i])
		}
		// first (fixed cost): the length corpus, over the empty container and over one with content
		if !lengthDone[x0.Kind()] {
			lengthDone[x0.Kind()] = true
			for pi, p := range paths {
				if pi == 0 || pi == len(paths)/2 {
					for ti, t := range lengthCorpus(x0) {
						if !j.quick() || pi == 0 || ti%3 == 1 {
							loadEvent(u, p, t, (ti+pi)%5 == 4)
							j.edges++
						}
					}
				}
			}
		}
		for i, p := range paths {
			if budgetExceeded() {
				extraStats["tour_truncated"] = true
				return
			}
			roundTrip(u, p)
			j.states++
			// loads: every prior state of a sample, the whole corpus
			step := 1
			if len(paths) > 24 {
				step = len(paths) / 24
			}
			if i%step == 0 {
				for ti, t := range corpus(x0, j.r, own, !j.quick()) {
					loadEvent(u, p, t, (ti+i)%3 == 2)
					j.edges++
				}
			}
		}
	}
}

// follow-up operations after a load (C12: the container continues to satisfy its other guarantees):
// ordinary events of the container's own family, validated by that family's trace specification
func jobJSONFollow(j *jobCtx) {
	for _, u := range jsonUniverses(j) {
		x0 := u.New()
		paths := enumStates(u, 40, isMut(x0))
		texts := []string{"null", "[]", "{}"}
		if isKV(x0) {
			texts = append(texts, `{"2":20,"1":10}`, `{"1":10,"2":10,"3":30}`, `{"1":"x"}`)
		} else if _, ok := x0.(*heapInst); ok {
			texts = append(texts, `[{"p":3,"id":1},{"p":2,"id":1},{"p":1,"id":1}]`, `[{"p":1,"id":1},"x"]`)
		} else {
			texts = append(texts, "[3,1,2,3]", "[5,4,3,2,1,6,7]", `[7,"x",9,10]`)
		}
		for pi, p := range paths {
			if pi%3 != 0 && pi > 4 {
				continue
			}
			for _, t := range texts {
				x := replay(u, p)
				bad := false
				func() {
					defer func() {
						if recover() != nil {
							bad = true
						}
					}()
					x.Target().(jsonable).FromJSON([]byte(t))
				}()
				if bad {
					continue // the panic itself is reported by the json job
				}
				pre, obad := safeObserve(x)
				if obad {
					continue
				}
				// depth-first tour of depth 2 from the loaded state would need clones; take the universe's calls in turn
				calls := u.Calls(x)
				rs := 1
				for k := 0; k < 10 && len(calls) > 0; k++ {
					c := calls[j.r.Intn(len(calls))]
					if !x.Mutates(c.Op) && j.r.Intn(3) != 0 {
						continue
					}
					var post Ev
					if rs == 1 {
						post = step(x, c, 1, pre, nil)
						rs = 0
					} else {
						post = step(x, c, 0, nil, nil)
					}
					j.edges++
					if _, b := post["obspanic"]; b || lastPanicked {
						break
					}
					calls = u.Calls(x)
				}
			}
		}
	}
}

// ---------------------------------------------------------------------------------------------
// string keys and values (C11: "string and integer key types, values that contain text equal to keys")

type strMap interface {
	Put(k string, v string)
	Remove(k string)
	Keys() []string
	Get(k string) (string, bool)
	Size() int
	jsonable
}

// SK: an integer key type with a String() method (like time.Month): fmt prints it by name, encoding/json by number
type SK int

func (k SK) String() string {
	return []string{"zero", "one", "two", "three", "four", "five"}[((int(k)%6)+6)%6] + "!"
}

type kvMap[K comparable, W any] interface {
	Put(K, W)
	Get(K) (W, bool)
	Remove(K)
	Keys() []K
	Size() int
	ToJSON() ([]byte, error)
	FromJSON([]byte) error
}

// round trips of the 8 key-value kinds with keys and values that are not plain integers
func strRoundTrips(j *jobCtx) {
	kvRoundTrips(j, "str", []string{"x", "b", "a", "q\"uote", "é"}, []string{"a", "q", "z", "b", "x:\"a\"", ""},
		func(k string) string { return k }, func(v string) string { return v })
	kvRoundTrips(j, "stringer", []SK{12, 3, 7, 1, 5, -2}, []string{"a", "one!", "7", "", "z"},
		func(k SK) string { return itoa(int(k)) }, func(v string) string { return v })
	kvRoundTrips(j, "named", []Name{"x", "b", "a", "10", "9"}, []SK{1, 2, 3, 0},
		func(k Name) string { return string(k) }, func(v SK) string { return itoa(int(v)) })
	kvRoundTrips(j, "int8", []int8{-128, 127, 0, -1, 10, 9}, []string{"a", "b", "-1", ""},
		func(k int8) string { return itoa(int(k)) }, func(v string) string { return v })
	// numeric keys and values at the extremes of their types; strings that need escaping on both sides
	kvRoundTrips(j, "u64", []uint64{0, 1 << 63, math.MaxUint64, 1, 1<<63 + 7, 42}, []uint64{math.MaxUint64, 0, 1 << 63, 5},
		func(k uint64) string { return fmt.Sprint(k) }, func(v uint64) string { return fmt.Sprint(v) })
	kvRoundTrips(j, "i64", []int64{math.MinInt64, math.MaxInt64, 0, -1, 1 << 53, -(1 << 53) - 1}, []float64{0, -1.5, 1e21, 1e-7, math.MaxFloat64},
		func(k int64) string { return fmt.Sprint(k) }, func(v float64) string { return fmt.Sprint(v) })
	kvRoundTrips(j, "u8", []uint8{0, 255, 128, 127, 1, 200}, []uint8{0, 255, 128, 7},
		func(k uint8) string { return fmt.Sprint(k) }, func(v uint8) string { return fmt.Sprint(v) })
	kvRoundTrips(j, "estr", []string{"", "a\"b", "<tag>&", "line\nbreak", "\u2028x", "\\back", "é€😀", "null"}, []string{"\"", "</script>", "\t", "\u2029", "", "{}"},
		func(k string) string { return k }, func(v string) string { return v })
}

func kvRoundTrips[K cmp.Ordered, W cmp.Ordered](j *jobCtx, tag string, keys []K, vals []W, kstr func(K) string, wstr func(W) string) {
	type M = kvMap[K, W]
	mk := map[string]func() M{
		"hashmap":       func() M { return hashmap.New[K, W]() },
		"treemap":       func() M { return treemap.New[K, W]() },
		"linkedhashmap": func() M { return linkedhashmap.New[K, W]() },
		"hashbidimap":   func() M { return hashbidimap.New[K, W]() },
		"treebidimap":   func() M { return treebidimap.New[K, W]() },
		"redblacktree":  func() M { return rbt.New[K, W]() },
		"avltree":       func() M { return avltree.New[K, W]() },
		"btree":         func() M { return btree.New[K, W](3) },
	}
	content := func(m M) []any {
		out := []any{}
		for _, k := range m.Keys() {
			v, _ := m.Get(k)
			out = append(out, []string{kstr(k), wstr(v)})
		}
		return out
	}
	for _, kind := range []string{"hashmap", "treemap", "linkedhashmap", "hashbidimap", "treebidimap", "redblacktree", "avltree", "btree"} {
		newM := mk[kind]
		if !j.want(kind) {
			continue
		}
		disc := jsonDisc(kind)
		cfg := Ev{"disc": disc, "kv": true, "cmp": "", "vcmp": "", "cap": 0, "m": 0, "sorted": false, "linked": kind == "linkedhashmap",
			"bidi": mapBidi(kind), "vsorted": false, "zero": 0, "strings": true, "elem": tag}
		n := 60
		if !j.quick() {
			n = 600
		}
		if tag != "str" {
			n /= 2
		}
		for t := 0; t < n; t++ {
			m := newM()
			steps := 1 + j.r.Intn(6)
			guard("json", kind, "Build", func() {
				for s := 0; s < steps; s++ {
					k := keys[j.r.Intn(len(keys))]
					if j.r.Intn(5) == 0 {
						m.Remove(k)
					} else {
						m.Put(k, vals[(j.r.Intn(len(vals))+s)%len(vals)])
					}
				}
				if t == 0 && len(keys) >= 3 && len(vals) >= 3 { // (for strings: the documented example, a value whose text equals a later key)
					m = newM()
					m.Put(keys[0], vals[0])
					m.Put(keys[1], vals[1])
					m.Put(keys[2], vals[2])
				}
			})
			e := Ev{"fam": "json", "kind": kind, "cfg": cfg, "op": "RoundTrip", "rs": 1, "timeout": false, "obsbad": false,
				"panic": false, "pmsg": "", "out": 0, "odrain": []any{}, "fdrain": []any{}, "fdrain2": []any{}, "stable": true}
			e["orig"], e["size"] = content(m), m.Size()
			var text []byte
			var err error
			ci := invoke(e, func() { poisonJSON(); text, err = m.ToJSON() })
			e["err"], e["panic"], e["text"] = err != nil || ci.Panic, ci.Panic, string(text)
			e["valid"], e["jkind"] = json.Valid(text), topKind(text)
			mb, merr := json.Marshal(m)
			eq := merr == nil && bytes.Equal(mb, text)
			if !eq && merr == nil && disc == "unordered" {
				var a, b any
				eq = json.Unmarshal(mb, &a) == nil && json.Unmarshal(text, &b) == nil && reflect.DeepEqual(a, b)
			}
			e["eqmarshal"] = eq
			y, z := newM(), newM()
			var e1, e2 error
			ci = invoke(e, func() { e1 = y.FromJSON(text); e2 = json.Unmarshal(text, z) })
			if ci.Panic {
				e["panic"] = true
			}
			e["loaderr"], e["fresh"], e["fsize"] = e1 != nil || ci.Panic, content(y), y.Size()
			e["loaderr2"], e["fresh2"], e["fsize2"] = e2 != nil || ci.Panic, content(z), z.Size()
			emit(e)
			distinct["rts|"+tag+"|"+kind+"|"+string(text)] = struct{}{}
		}
	}
}

// ---------------------------------------------------------------------------------------------
// struct elements with an omitted-when-empty member (C11: every JSON-representable element type)

type SE struct {
	N int    `json:"n"`
	S string `json:"s,omitempty"`
}

func (e SE) String() string { return fmt.Sprintf("%d|%s", e.N, e.S) }

func cmpSE(a, b SE) int {
	switch {
	case a.N != b.N:
		return a.N - b.N
	case a.S < b.S:
		return -1
	case a.S > b.S:
		return 1
	}
	return 0
}

// PM: a struct whose JSON methods have POINTER receivers (the usual convention): encoding/json uses them for addressable
// values only - slice elements are, values passed to json.Marshal one by one are not.  Text form "major.minor".
type PM struct{ Major, Minor int }

func (p *PM) MarshalJSON() ([]byte, error) {
	return json.Marshal(fmt.Sprintf("%d.%d", p.Major, p.Minor))
}
func (p *PM) UnmarshalJSON(b []byte) error {
	var t string
	if err := json.Unmarshal(b, &t); err != nil {
		return err
	}
	if _, err := fmt.Sscanf(t, "%d.%d", &p.Major, &p.Minor); err != nil {
		return err
	}
	return nil
}
func cmpPM(a, b PM) int {
	if a.Major != b.Major {
		return a.Major - b.Major
	}
	return a.Minor - b.Minor
}

// TM: the same with encoding.TextMarshaler / TextUnmarshaler on the pointer
type TM struct{ A, B int }

func (t *TM) MarshalText() ([]byte, error) { return []byte(fmt.Sprintf("%d/%d", t.A, t.B)), nil }
func (t *TM) UnmarshalText(b []byte) error {
	_, err := fmt.Sscanf(string(b), "%d/%d", &t.A, &t.B)
	return err
}
func cmpTM(a, b TM) int {
	if a.A != b.A {
		return a.A - b.A
	}
	return a.B - b.B
}

// *SE: pointer elements, nil among them (JSON null)
func strPSE(p *SE) string {
	if p == nil {
		return "nil"
	}
	return p.String()
}
func cmpPSE(a, b *SE) int {
	switch {
	case a == nil && b == nil:
		return 0
	case a == nil:
		return -1
	case b == nil:
		return 1
	}
	return cmpSE(*a, *b)
}

type elemBox[E any] struct {
	kind  string
	mk    func() any
	add   func(c any, e E)
	vals  func(c any) []E
	drain func(c any) []E
}

func elemBoxes[E comparable](cmp func(a, b E) int) []elemBox[E] {
	type adder interface{ Add(...E) }
	type valuer interface{ Values() []E }
	vals := func(c any) []E { return c.(valuer).Values() }
	addL := func(c any, e E) { c.(adder).Add(e) }
	none := func(c any) []E { return nil }
	type pusher interface {
		Push(E)
		Pop() (E, bool)
	}
	type enq interface {
		Enqueue(E)
		Dequeue() (E, bool)
	}
	drainS := func(c any) (out []E) {
		for i := 0; i < 100; i++ {
			v, ok := c.(pusher).Pop()
			if !ok {
				break
			}
			out = append(out, v)
		}
		return
	}
	drainQ := func(c any) (out []E) {
		for i := 0; i < 100; i++ {
			v, ok := c.(enq).Dequeue()
			if !ok {
				break
			}
			out = append(out, v)
		}
		return
	}
	push := func(c any, e E) { c.(pusher).Push(e) }
	enqueue := func(c any, e E) { c.(enq).Enqueue(e) }
	return []elemBox[E]{
		{"arraylist", func() any { return arraylist.New[E]() }, addL, vals, none},
		{"singlylinkedlist", func() any { return singlylinkedlist.New[E]() }, addL, vals, none},
		{"doublylinkedlist", func() any { return doublylinkedlist.New[E]() }, addL, vals, none},
		{"hashset", func() any { return hashset.New[E]() }, addL, vals, none},
		{"linkedhashset", func() any { return linkedhashset.New[E]() }, addL, vals, none},
		{"treeset", func() any { return treeset.NewWith[E](cmp) }, addL, vals, none},
		{"arraystack", func() any { return arraystack.New[E]() }, push, vals, drainS},
		{"linkedliststack", func() any { return linkedliststack.New[E]() }, push, vals, drainS},
		{"arrayqueue", func() any { return arrayqueue.New[E]() }, enqueue, vals, drainQ},
		{"linkedlistqueue", func() any { return linkedlistqueue.New[E]() }, enqueue, vals, drainQ},
		{"circularbuffer", func() any { return circularbuffer.New[E](4) }, enqueue, vals, drainQ},
		{"priorityqueue", func() any { return priorityqueue.NewWith[E](cmp) }, enqueue, vals, drainQ},
		{"binaryheap", func() any { return binaryheap.NewWith[E](cmp) }, func(c any, e E) { c.(*binaryheap.Heap[E]).Push(e) }, vals,
			func(c any) (out []E) {
				for i := 0; i < 100; i++ {
					v, ok := c.(*binaryheap.Heap[E]).Pop()
					if !ok {
						break
					}
					out = append(out, v)
				}
				return
			}},
	}
}

// round trips of containers whose elements are not integers: plain structs (omitempty fields), structs with pointer-receiver
// JSON / text methods, pointers (nil among them).  The text form of an element (str) stands for it in the event.
func structRoundTrips(j *jobCtx) {
	elemRoundTrips(j, "se", []SE{{1, "first"}, {2, ""}, {3, "x"}, {0, ""}, {4, "first"}, {5, ""}}, cmpSE, func(e SE) string { return e.String() })
	elemRoundTrips(j, "pm", []PM{{1, 2}, {0, 0}, {3, 10}, {1, 0}, {12, 7}, {2, 2}}, cmpPM, func(e PM) string { return fmt.Sprintf("%d.%d", e.Major, e.Minor) })
	elemRoundTrips(j, "tm", []TM{{1, 2}, {0, 0}, {3, 10}, {1, 0}, {12, 7}, {2, 2}}, cmpTM, func(e TM) string { return fmt.Sprintf("%d/%d", e.A, e.B) })
	a, b, c, d := &SE{1, "first"}, &SE{2, ""}, &SE{0, ""}, &SE{4, "x"}
	elemRoundTrips(j, "pse", []*SE{a, nil, b, c, d, a}, cmpPSE, strPSE)
	// the built-in numeric types at their extremes, booleans, strings that need escaping
	elemRoundTrips(j, "u64", []uint64{0, 1, 1 << 63, math.MaxUint64, 1<<63 + 5, 42}, cmp.Compare[uint64], func(e uint64) string { return fmt.Sprint(e) })
	elemRoundTrips(j, "uint", []uint{0, 7, 1 << 63, math.MaxUint, 1<<63 - 1, 42}, cmp.Compare[uint], func(e uint) string { return fmt.Sprint(e) })
	elemRoundTrips(j, "i64", []int64{0, -1, math.MinInt64, math.MaxInt64, 1 << 53, -(1 << 53) - 1}, cmp.Compare[int64], func(e int64) string { return fmt.Sprint(e) })
	elemRoundTrips(j, "i8", []int8{0, -1, -128, 127, 100, -100}, cmp.Compare[int8], func(e int8) string { return fmt.Sprint(e) })
	elemRoundTrips(j, "u8", []uint8{0, 1, 255, 128, 127, 200}, cmp.Compare[uint8], func(e uint8) string { return fmt.Sprint(e) })
	elemRoundTrips(j, "u32", []uint32{0, 1, math.MaxUint32, 1 << 31, 1<<31 - 1, 77}, cmp.Compare[uint32], func(e uint32) string { return fmt.Sprint(e) })
	elemRoundTrips(j, "f64", []float64{0, -1.5, 1e21, 1e-7, math.MaxFloat64, math.SmallestNonzeroFloat64, 123456789.125, 1e20},
		cmp.Compare[float64], func(e float64) string { return fmt.Sprint(e) })
	elemRoundTrips(j, "f32", []float32{0, -1.5, 16777216, 0.1, math.MaxFloat32, 1e-7}, cmp.Compare[float32], func(e float32) string { return fmt.Sprint(e) })
	elemRoundTrips(j, "bool", []bool{false, true}, func(a, b bool) int {
		switch {
		case a == b:
			return 0
		case !a:
			return -1
		}
		return 1
	}, func(e bool) string { return fmt.Sprint(e) })
	elemRoundTrips(j, "estr", []string{"", "a\"b", "<tag>&", "line\nbreak", "\u2028x", "tab\there", "\\back", "é€😀", "null", "[1,2]"}, cmp.Compare[string],
		func(e string) string { return e })
}

func elemRoundTrips[E comparable](j *jobCtx, tag string, pool []E, cmp func(a, b E) int, str func(E) string) {
	strs := func(vs []E) []any {
		out := []any{}
		for _, v := range vs {
			out = append(out, str(v))
		}
		return out
	}
	for _, b := range elemBoxes[E](cmp) {
		if !j.want(b.kind) {
			continue
		}
		disc := jsonDisc(b.kind)
		cfg := Ev{"disc": disc, "kv": false, "cmp": "", "vcmp": "", "cap": 4, "m": 0, "sorted": false, "linked": false, "bidi": false,
			"vsorted": false, "zero": 0, "structs": true, "elem": tag}
		for t := 0; t < 24; t++ {
			c := b.mk()
			n := 1 + t%5
			guard("json", b.kind, "Build", func() {
				for i := 0; i < n; i++ {
					b.add(c, pool[(t+i*(1+t/6))%len(pool)])
				}
			})
			e := Ev{"fam": "json", "kind": b.kind, "cfg": cfg, "op": "RoundTrip", "rs": 1, "timeout": false, "obsbad": false,
				"panic": false, "pmsg": "", "out": 0, "stable": true}
			orig := b.vals(c)
			e["orig"], e["size"] = strs(orig), len(orig)
			var text []byte
			var err error
			ci := invoke(e, func() { poisonJSON(); text, err = c.(jsonable).ToJSON() })
			e["err"], e["panic"], e["text"] = err != nil || ci.Panic, ci.Panic, string(text)
			e["valid"], e["jkind"] = json.Valid(text), topKind(text)
			mb, merr := json.Marshal(c)
			eq := merr == nil && bytes.Equal(mb, text)
			if !eq && merr == nil && disc == "unordered" {
				var x1, x2 []any
				eq = json.Unmarshal(mb, &x1) == nil && json.Unmarshal(text, &x2) == nil && sameBagAny(x1, x2)
				var b1, b2 []byte // byte elements: encoding/json writes []byte as one base64 string
				if !eq && json.Unmarshal(mb, &b1) == nil && json.Unmarshal(text, &b2) == nil {
					sort.Slice(b1, func(i, j int) bool { return b1[i] < b1[j] })
					sort.Slice(b2, func(i, j int) bool { return b2[i] < b2[j] })
					eq = bytes.Equal(b1, b2)
				}
			}
			e["eqmarshal"] = eq
			y, z := b.mk(), b.mk()
			var e1, e2 error
			ci = invoke(e, func() { e1 = y.(jsonable).FromJSON(text); e2 = json.Unmarshal(text, z) })
			if ci.Panic {
				e["panic"] = true
			}
			fy, fz := b.vals(y), b.vals(z)
			e["loaderr"], e["fresh"], e["fsize"] = e1 != nil || ci.Panic, strs(fy), len(fy)
			e["loaderr2"], e["fresh2"], e["fsize2"] = e2 != nil || ci.Panic, strs(fz), len(fz)
			e["odrain"], e["fdrain"], e["fdrain2"] = strs(b.drain(c)), strs(b.drain(y)), strs(b.drain(z))
			emit(e)
			distinct["rt"+tag+"|"+b.kind+"|"+string(text)] = struct{}{}
		}
	}
}
