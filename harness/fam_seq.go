package main

// Family SEQ: the three lists (C03).  Family QUE: stacks, queues, circular buffer (C05).

import (
	"math"
	"math/rand"
	"reflect"
	"strings"

	"github.com/emirpasic/gods/v2/lists"
	"github.com/emirpasic/gods/v2/lists/arraylist"
	"github.com/emirpasic/gods/v2/lists/doublylinkedlist"
	"github.com/emirpasic/gods/v2/lists/singlylinkedlist"
	"github.com/emirpasic/gods/v2/queues/arrayqueue"
	"github.com/emirpasic/gods/v2/queues/circularbuffer"
	"github.com/emirpasic/gods/v2/queues/linkedlistqueue"
	"github.com/emirpasic/gods/v2/stacks/arraystack"
	"github.com/emirpasic/gods/v2/stacks/linkedliststack"
)

func firstLine(s string) string {
	if i := strings.IndexByte(s, '\n'); i >= 0 {
		return s[:i]
	}
	return s
}

// ---------------------------------------------------------------------------------------------
// lists

type listX interface {
	lists.List[int]
	IndexOf(v int) int
}
type appender interface {
	Append(values ...int)
	Prepend(values ...int)
}

type seqInst struct {
	kind  string
	l     listX
	probe []int // value universe + one absent value for IndexOf / Contains probes
	zeros bool  // float elements -1, -0, +0, 1, 2 behind the codes 0..4 (fam_dflt.go)
}

func newList(kind string, vs ...int) listX {
	switch kind {
	case "arraylist":
		return arraylist.New[int](vs...)
	case "singlylinkedlist":
		return singlylinkedlist.New[int](vs...)
	case "doublylinkedlist":
		return doublylinkedlist.New[int](vs...)
	}
	die("unknown list kind %s", kind)
	return nil
}

func (x *seqInst) Fam() string            { return "seq" }
func (x *seqInst) Kind() string           { return x.kind }
func (x *seqInst) Cfg() Ev                { return Ev{"zero": 0} }
func (x *seqInst) Target() any            { return x.l }
func (x *seqInst) Mask() reflect.Type     { return nil }
func (x *seqInst) Mutates(op string) bool { return seqMut[op] }

var seqMut = map[string]bool{"FromJSON": true, "Add": true, "Append": true, "Prepend": true, "Insert": true, "Remove": true,
	"Set": true, "Swap": true, "Sort": true, "Clear": true, "New": true}

func (x *seqInst) Observe() Ev {
	l := x.l
	vals := ints(l.Values())
	n := l.Size()
	get := [][]any{}
	for _, i := range obsIndices(n) {
		v, ok := l.Get(i)
		get = append(get, []any{i, v, ok})
	}
	idx := [][]any{}
	for _, v := range x.probe {
		idx = append(idx, []any{v, l.IndexOf(v), l.Contains(v)})
	}
	return Ev{"vals": vals, "size": n, "empty": l.Empty(), "name": firstLine(l.String()), "get": get,
		"idx": idx, "cnone": l.Contains()}
}

// every index -1..n of a short list; of a long one the two ends, the middle and a spread of 24 more
func obsIndices(n int) []int {
	var is []int
	if n <= 48 {
		for i := -1; i <= n; i++ {
			is = append(is, i)
		}
		return is
	}
	is = append(is, -1, 0, 1, 2, n/2-1, n/2, n/2+1, n-3, n-2, n-1, n)
	for t := 1; t <= 24; t++ {
		is = append(is, (t*n)/25+t%3)
	}
	return is
}

func (x *seqInst) Do(c Call) []any {
	l := x.l
	switch c.Op {
	case "Add":
		l.Add(append([]int(nil), c.Vs...)...)
	case "Append":
		l.(appender).Append(append([]int(nil), c.Vs...)...)
	case "Prepend":
		l.(appender).Prepend(append([]int(nil), c.Vs...)...)
	case "Insert":
		l.Insert(c.I, append([]int(nil), c.Vs...)...)
	case "Remove":
		l.Remove(c.I)
	case "Set":
		l.Set(c.I, c.V)
	case "Swap":
		l.Swap(c.I, c.J)
	case "Sort":
		l.Sort(cmpInt(c.Cmp))
	case "Clear":
		l.Clear()
	case "Get":
		v, ok := l.Get(c.I)
		return []any{v, ok}
	case "IndexOf":
		return []any{l.IndexOf(c.V)}
	case "Contains":
		return []any{l.Contains(c.Vs...)}
	case "Size":
		return []any{l.Size()}
	case "Empty":
		return []any{l.Empty()}
	case "Values":
		return []any{ints(l.Values())}
	case "String":
		return []any{firstLine(l.String())}
	case "New":
		if x.zeros {
			x.l = newZeroList(x.kind, append([]int(nil), c.Vs...)...)
		} else {
			x.l = newList(x.kind, append([]int(nil), c.Vs...)...)
		}
	case "FromJSON":
		return []any{l.(jsonable).FromJSON(loadText(c, mustJSON(ints(c.Vs)))) == nil}
	default:
		die("seq: unknown op %s", c.Op)
	}
	return nil
}

type seqUniverse struct {
	kind    string
	vals    []int // value universe
	maxLen  int
	argLen  int // maximal length of variadic argument lists
	cmps    []string
	huge    bool
	capOnly bool // narrow universe used to cross the array list's capacity thresholds
	zeros   bool // float elements incl. -0 and +0, comparators finer than == (fam_dflt.go)
}

func (u *seqUniverse) New() Inst {
	if u.zeros { // values 1, 2 are the two zeros: the == based IndexOf / Contains are only asked about the other values
		return &seqInst{kind: u.kind, l: newZeroList(u.kind), probe: []int{0, 3, 99}, zeros: true}
	}
	return &seqInst{kind: u.kind, l: newList(u.kind), probe: append(append([]int{}, u.vals...), 99)}
}
func (u *seqUniverse) Inside(x Inst) bool { return x.(*seqInst).l.Size() <= u.maxLen }

func tuples(vals []int, maxLen int) [][]int {
	out := [][]int{{}}
	level := [][]int{{}}
	for l := 1; l <= maxLen; l++ {
		var next [][]int
		for _, t := range level {
			for _, v := range vals {
				nt := append(append([]int{}, t...), v)
				next = append(next, nt)
			}
		}
		out = append(out, next...)
		level = next
	}
	return out
}

func (u *seqUniverse) indices(n int) []int {
	var is []int
	for i := -1; i <= n+1; i++ {
		is = append(is, i)
	}
	if u.huge {
		is = append(is, math.MinInt, math.MaxInt)
	}
	return is
}

func (u *seqUniverse) Calls(x Inst) []Call {
	n := x.(*seqInst).l.Size()
	var cs []Call
	tl := tuples(u.vals, u.argLen)
	linked := u.kind != "arraylist"
	if n > u.maxLen {
		return nil
	}
	if u.capOnly {
		for _, t := range tl {
			cs = append(cs, Call{Op: "Add", Vs: t}, Call{Op: "Insert", I: n / 2, Vs: t})
		}
		big := make([]int, 16) // a long argument list / a long load: capacity 32 in one step
		for i := range big {
			big[i] = 1
		}
		cs = append(cs, Call{Op: "Add", Vs: big}, Call{Op: "Add", Vs: append(append([]int{}, big...), big...)},
			Call{Op: "FromJSON", Vs: big[:5]}, Call{Op: "FromJSON", Vs: []int{}}, Call{Op: "Insert", I: 1, Vs: big[:9]})
		cs = append(cs, Call{Op: "Remove", I: 0}, Call{Op: "Remove", I: n - 1}, Call{Op: "Remove", I: n / 2},
			Call{Op: "Insert", I: 0, Vs: []int{1}}, Call{Op: "Insert", I: n, Vs: []int{1}}, Call{Op: "Set", I: n, V: 1},
			Call{Op: "Clear"}, Call{Op: "Sort", Cmp: "nat"}, Call{Op: "Values"})
		return cs
	}
	for _, t := range tl {
		cs = append(cs, Call{Op: "Add", Vs: t})
		if linked {
			cs = append(cs, Call{Op: "Append", Vs: t}, Call{Op: "Prepend", Vs: t})
		}
		for _, i := range u.indices(n) {
			cs = append(cs, Call{Op: "Insert", I: i, Vs: t})
		}
	}
	for _, i := range u.indices(n) {
		cs = append(cs, Call{Op: "Remove", I: i}, Call{Op: "Get", I: i})
		for _, v := range u.vals {
			cs = append(cs, Call{Op: "Set", I: i, V: v})
		}
		for _, j := range u.indices(n) {
			cs = append(cs, Call{Op: "Swap", I: i, J: j})
		}
	}
	for _, c := range u.cmps {
		cs = append(cs, Call{Op: "Sort", Cmp: c})
	}
	cs = append(cs, Call{Op: "Clear"}, Call{Op: "Size"}, Call{Op: "Empty"}, Call{Op: "Values"}, Call{Op: "String"},
		Call{Op: "Contains", Vs: []int{}}, Call{Op: "IndexOf", V: 99})
	if u.zeros {
		return append(cs, Call{Op: "IndexOf", V: 3}, Call{Op: "Contains", Vs: []int{3}}, Call{Op: "Contains", Vs: []int{3, 99}}, Call{Op: "IndexOf", V: 0})
	}
	cs = append(cs, Call{Op: "FromJSON", Vs: []int{}}, Call{Op: "FromJSON", Vs: []int{2, 0}}, Call{Op: "FromJSON", Vs: []int{1, 1, 0}},
		Call{Op: "FromJSON", Vs: []int{2, 1}, S: "bad"})
	for _, v := range u.vals {
		cs = append(cs, Call{Op: "IndexOf", V: v}, Call{Op: "Contains", Vs: []int{v}}, Call{Op: "Contains", Vs: []int{v, 99}})
		for _, w := range u.vals {
			cs = append(cs, Call{Op: "Contains", Vs: []int{v, w}})
		}
	}
	return cs
}

// random long histories
type seqRandom struct {
	kind string
	nval int
}

func (u *seqRandom) New() Inst {
	probe := []int{}
	for v := 0; v < u.nval; v++ {
		probe = append(probe, v)
	}
	probe = append(probe, 99)
	return &seqInst{kind: u.kind, l: newList(u.kind), probe: probe}
}

func hostileIndex(r *rand.Rand, n int) int {
	switch r.Intn(12) {
	case 0:
		return -1
	case 1:
		return n
	case 2:
		return n + 1
	case 3:
		return math.MinInt
	case 4:
		return math.MaxInt
	case 5:
		return 0
	case 6:
		return n - 1
	case 7:
		return -r.Intn(1000) - 2
	case 8:
		return n + 2 + r.Intn(1000)
	}
	if n == 0 {
		return 0
	}
	return r.Intn(n)
}

// values 0..nval-1
func randVals0(r *rand.Rand, nval, maxLen int) []int {
	vs := randVals(r, nval, maxLen)
	for i := range vs {
		vs[i]--
	}
	return vs
}

func randVals(r *rand.Rand, nval, maxLen int) []int {
	k := r.Intn(maxLen + 1)
	vs := make([]int, k)
	for i := range vs {
		vs[i] = 1 + r.Intn(nval)
	}
	return vs
}

func (u *seqRandom) Rand(x Inst, r *rand.Rand) Call {
	n := x.(*seqInst).l.Size()
	linked := u.kind != "arraylist"
	grow := 5
	if n > 24 {
		grow = 2 // keep observations small
	}
	switch p := r.Intn(20); {
	case p < grow:
		ops := []string{"Add", "Insert"}
		if linked {
			ops = append(ops, "Append", "Prepend")
		}
		op := ops[r.Intn(len(ops))]
		return Call{Op: op, I: hostileIndex(r, n), Vs: randVals0(r, u.nval, 4)}
	case p < 9:
		return Call{Op: "Remove", I: hostileIndex(r, n)}
	case p < 11:
		return Call{Op: "Set", I: hostileIndex(r, n), V: r.Intn(u.nval)}
	case p < 13:
		return Call{Op: "Swap", I: hostileIndex(r, n), J: hostileIndex(r, n)}
	case p < 14:
		return Call{Op: "Sort", Cmp: []string{"nat", "rev", "half", "natx", "revx"}[r.Intn(5)]}
	case p < 15:
		if r.Intn(4) == 0 {
			return Call{Op: "Clear"}
		}
		return Call{Op: "Get", I: hostileIndex(r, n)}
	case p < 17:
		return Call{Op: "Contains", Vs: randVals0(r, u.nval+1, 3)}
	case p < 18:
		return Call{Op: "IndexOf", V: r.Intn(u.nval + 1)}
	default:
		return Call{Op: []string{"Size", "Empty", "Values", "String"}[r.Intn(4)]}
	}
}

// ---------------------------------------------------------------------------------------------
// stacks, queues, circular buffer

type queCore interface {
	Peek() (int, bool)
	Empty() bool
	Size() int
	Clear()
	Values() []int
	String() string
}
type stackLike interface {
	queCore
	Push(v int)
	Pop() (int, bool)
}
type queueLike interface {
	queCore
	Enqueue(v int)
	Dequeue() (int, bool)
}

type queInst struct {
	kind string
	cap  int
	q    queCore
}

func newQue(kind string, c int) queCore {
	switch kind {
	case "arraystack":
		return arraystack.New[int]()
	case "linkedliststack":
		return linkedliststack.New[int]()
	case "arrayqueue":
		return arrayqueue.New[int]()
	case "linkedlistqueue":
		return linkedlistqueue.New[int]()
	case "circularbuffer":
		return circularbuffer.New[int](c)
	}
	die("unknown que kind %s", kind)
	return nil
}

func queDisc(kind string) string {
	switch kind {
	case "arraystack", "linkedliststack":
		return "lifo"
	case "circularbuffer":
		return "ring"
	}
	return "fifo"
}

func (x *queInst) Fam() string  { return "que" }
func (x *queInst) Kind() string { return x.kind }
func (x *queInst) Cfg() Ev {
	return Ev{"zero": 0, "disc": queDisc(x.kind), "cap": clamp(x.cap)}
}

// zsRing: a circular buffer of ZERO-SIZE elements, which makes every capacity up to MaxInt allocatable; seen by the
// queue family as a ring of zeros (the capacity is logged clamped: such a ring never gets full)
type zsRing struct {
	q *circularbuffer.Queue[struct{}]
}

func (z zsRing) Enqueue(int)          { z.q.Enqueue(struct{}{}) }
func (z zsRing) Dequeue() (int, bool) { _, ok := z.q.Dequeue(); return 0, ok }
func (z zsRing) Peek() (int, bool)    { _, ok := z.q.Peek(); return 0, ok }
func (z zsRing) Empty() bool          { return z.q.Empty() }
func (z zsRing) Full() bool           { return z.q.Full() }
func (z zsRing) Size() int            { return z.q.Size() }
func (z zsRing) Clear()               { z.q.Clear() }
func (z zsRing) String() string       { return z.q.String() }
func (z zsRing) Values() []int        { return make([]int, len(z.q.Values())) }
func (x *queInst) Target() any        { return x.q }
func (x *queInst) Mask() reflect.Type { return nil }
func (x *queInst) Mutates(op string) bool {
	return op == "Push" || op == "Pop" || op == "Enqueue" || op == "Dequeue" || op == "Clear" || op == "FromJSON"
}

func (x *queInst) Observe() Ev {
	q := x.q
	pv, pok := q.Peek()
	full := false
	if cb, ok := q.(interface{ Full() bool }); ok {
		full = cb.Full()
	}
	size := q.Size()
	vals, name := []int{}, ""
	if size >= 0 { // (a negative Size() is reported as such: Values() and String() would only panic while allocating)
		vals, name = ints(q.Values()), firstLine(q.String())
	}
	return Ev{"vals": vals, "size": size, "empty": q.Empty(), "name": name, "peek": []any{pv, pok}, "full": full}
}

func (x *queInst) Do(c Call) []any {
	q := x.q
	switch c.Op {
	case "Push":
		q.(stackLike).Push(c.V)
	case "Pop":
		v, ok := q.(stackLike).Pop()
		return []any{v, ok}
	case "Enqueue":
		q.(queueLike).Enqueue(c.V)
	case "Dequeue":
		v, ok := q.(queueLike).Dequeue()
		return []any{v, ok}
	case "Peek":
		v, ok := q.Peek()
		return []any{v, ok}
	case "Clear":
		q.Clear()
	case "Full":
		return []any{q.(interface{ Full() bool }).Full()}
	case "Size":
		return []any{q.Size()}
	case "Empty":
		return []any{q.Empty()}
	case "Values":
		return []any{ints(q.Values())}
	case "String":
		return []any{firstLine(q.String())}
	case "FromJSON":
		return []any{q.(jsonable).FromJSON(loadText(c, mustJSON(ints(c.Vs)))) == nil}
	default:
		die("que: unknown op %s", c.Op)
	}
	return nil
}

type queUniverse struct {
	kind   string
	cap    int
	maxLen int
	nval   int // distinguishable values are produced by a rolling counter 1..nval
}

func (u *queUniverse) New() Inst          { return &queInst{kind: u.kind, cap: u.cap, q: newQue(u.kind, u.cap)} }
func (u *queUniverse) Inside(x Inst) bool { return x.(*queInst).q.Size() <= u.maxLen }
func (u *queUniverse) Calls(x Inst) []Call {
	q := x.(*queInst)
	if q.q.Size() > u.maxLen {
		return nil
	}
	put, take := "Enqueue", "Dequeue"
	if queDisc(u.kind) == "lifo" {
		put, take = "Push", "Pop"
	}
	var cs []Call
	for v := 0; v < u.nval; v++ { // 0 is the Go zero value, also returned by Pop / Peek on an empty container
		cs = append(cs, Call{Op: put, V: v})
	}
	cs = append(cs, Call{Op: take}, Call{Op: "Peek"}, Call{Op: "Clear"}, Call{Op: "Size"}, Call{Op: "Empty"},
		Call{Op: "Values"}, Call{Op: "String"})
	if u.kind == "circularbuffer" {
		cs = append(cs, Call{Op: "Full"})
	}
	// loads: empty, shorter than, exactly and longer than the capacity
	cs = append(cs, Call{Op: "FromJSON", Vs: []int{}}, Call{Op: "FromJSON", Vs: []int{2, 0}}, Call{Op: "FromJSON", Vs: []int{1, 2, 0}},
		Call{Op: "FromJSON", Vs: []int{2, 1}, S: "bad"})
	if u.kind == "circularbuffer" {
		full := make([]int, u.cap)
		for i := range full {
			full[i] = i % 3
		}
		cs = append(cs, Call{Op: "FromJSON", Vs: full}, Call{Op: "FromJSON", Vs: append([]int{2}, full...)})
	}
	return cs
}

type queRandom struct {
	kind string
	cap  int
	ctr  int
}

func (u *queRandom) New() Inst { return &queInst{kind: u.kind, cap: u.cap, q: newQue(u.kind, u.cap)} }
func (u *queRandom) Rand(x Inst, r *rand.Rand) Call {
	put, take := "Enqueue", "Dequeue"
	if queDisc(u.kind) == "lifo" {
		put, take = "Push", "Pop"
	}
	n := x.(*queInst).q.Size()
	p := r.Intn(20)
	lim := 9
	if n > 24 {
		lim = 5
	}
	switch {
	case p < lim:
		u.ctr++
		return Call{Op: put, V: u.ctr % 1000}
	case p < 15:
		return Call{Op: take}
	case p < 17:
		return Call{Op: "Peek"}
	case p < 18:
		if r.Intn(3) == 0 {
			return Call{Op: "Clear"}
		}
		return Call{Op: "Values"}
	default:
		ops := []string{"Size", "Empty", "String"}
		if u.kind == "circularbuffer" {
			ops = append(ops, "Full")
		}
		return Call{Op: ops[r.Intn(len(ops))]}
	}
}
