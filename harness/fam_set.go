package main

// Family SET: HashSet, TreeSet, LinkedHashSet (C04 C09 C02) and family ALG: set algebra (C13).
// Family HEAP: BinaryHeap, PriorityQueue (C06).

import (
	"encoding/json"
	"math/rand"
	"reflect"

	"github.com/emirpasic/gods/v2/queues/priorityqueue"
	"github.com/emirpasic/gods/v2/sets"
	"github.com/emirpasic/gods/v2/sets/hashset"
	"github.com/emirpasic/gods/v2/sets/linkedhashset"
	"github.com/emirpasic/gods/v2/sets/treeset"
	"github.com/emirpasic/gods/v2/trees/binaryheap"
)

type setInst struct {
	kind  string
	cmp   string
	s     sets.Set[int]
	probe []int
	cmpF  func(a, b int) int // one function value per universe (TreeSet algebra compares function pointers)
}

func newSet(kind string, cmpF func(a, b int) int, vs ...int) sets.Set[int] {
	if cmpF == nil && kind == "treeset" { // New(): built-in comparator, float elements (fam_dflt.go)
		s := newDefaultSet()
		s.Add(vs...)
		return s
	}
	switch kind {
	case "hashset":
		return hashset.New[int](vs...)
	case "treeset":
		return treeset.NewWith[int](cmpF, vs...)
	case "linkedhashset":
		return linkedhashset.New[int](vs...)
	}
	die("unknown set kind %s", kind)
	return nil
}

func (x *setInst) Fam() string  { return "set" }
func (x *setInst) Kind() string { return x.kind }
func (x *setInst) Cfg() Ev {
	return Ev{"zero": 0, "sorted": x.kind == "treeset", "cmp": cfgCmp(x.cmp), "linked": x.kind == "linkedhashset"}
}
func (x *setInst) Target() any        { return x.s }
func (x *setInst) Mask() reflect.Type { return nil }
func (x *setInst) Mutates(op string) bool {
	return op == "Add" || op == "Remove" || op == "Clear" || op == "New" || op == "FromJSON"
}

type idxIter interface {
	Next() bool
	Value() int
	Index() int
}

func observeSet(s sets.Set[int], probe []int) Ev {
	o := Ev{"vals": ints(s.Values()), "size": s.Size(), "empty": s.Empty(), "name": firstLine(s.String()),
		"cnone": s.Contains()}
	has := [][]any{}
	for _, p := range probe {
		has = append(has, []any{p, s.Contains(p)})
	}
	o["has"] = has
	iter, each, jvals := []int{}, []int{}, []int{}
	ordered := false
	collect := func(it idxIter) {
		for i := 0; it.Next() && i < 1<<20; i++ {
			iter = append(iter, it.Value())
		}
	}
	switch t := s.(type) {
	case *treeset.Set[int]:
		ordered = true
		it := t.Iterator()
		collect(&it)
		t.Each(func(i int, v int) { each = append(each, v) })
		if b, err := t.ToJSON(); err == nil {
			json.Unmarshal(b, &jvals)
		}
	case *linkedhashset.Set[int]:
		ordered = true
		it := t.Iterator()
		collect(&it)
		t.Each(func(i int, v int) { each = append(each, v) })
		if b, err := t.ToJSON(); err == nil {
			json.Unmarshal(b, &jvals)
		}
	case dfltSetWalker: // TreeSet made by New(), elements of some ordered type behind int codes (fam_dflt.go)
		ordered = true
		iter, each = t.walk()
		jvals = append(jvals, iter...)
	}
	o["iter"], o["each"], o["jvals"], o["ordered"] = iter, each, ints(jvals), ordered
	return o
}

func (x *setInst) Observe() Ev { return observeSet(x.s, x.probe) }

// observation of an operand / result of the algebra family: an observer that panics or hangs on a changed implementation must
// end in a verdict, not in the death of the harness - the observation is then a well-typed empty one and `bad` is reported
func observeSetSafe(kind string, s sets.Set[int], probe []int, bad *bool, msg *string) Ev {
	var o Ev
	ci := guard("alg", kind, "Observe", func() { o = observeSet(s, probe) })
	if ci.Panic || o == nil {
		*bad = true
		if *msg == "" {
			*msg = "observer panicked: " + ci.PMsg
		}
		return Ev{"vals": []int{}, "size": 0, "empty": true, "name": "", "cnone": true, "has": [][]any{}, "iter": []int{},
			"each": []int{}, "jvals": []int{}, "ordered": false}
	}
	return o
}

func (x *setInst) Do(c Call) []any {
	s := x.s
	switch c.Op {
	case "Add":
		s.Add(append([]int(nil), c.Vs...)...)
	case "Remove":
		s.Remove(append([]int(nil), c.Vs...)...)
	case "Clear":
		s.Clear()
	case "Contains":
		return []any{s.Contains(c.Vs...)}
	case "Values":
		return []any{ints(s.Values())}
	case "Size":
		return []any{s.Size()}
	case "Empty":
		return []any{s.Empty()}
	case "String":
		return []any{firstLine(s.String())}
	case "New":
		x.s = newSet(x.kind, x.cmpF, append([]int(nil), c.Vs...)...)
	case "FromJSON":
		return []any{s.(jsonable).FromJSON(loadText(c, mustJSON(ints(c.Vs)))) == nil}
	default:
		die("set: unknown op %s", c.Op)
	}
	return nil
}

type setUniverse struct {
	kind   string
	cmp    string
	n      int // elements 1..n
	argLen int
	cmpF   func(a, b int) int
}

func (u *setUniverse) New() Inst {
	if u.cmpF == nil && !isDflt(u.cmp) {
		u.cmpF = cmpInt(u.cmp)
	}
	if isDflt(u.cmp) {
		curDfltSet = u.cmp
	}
	var probe []int
	for v := -1; v <= u.n; v++ {
		probe = append(probe, v)
	}
	return &setInst{kind: u.kind, cmp: u.cmp, s: newSet(u.kind, u.cmpF), probe: probe, cmpF: u.cmpF}
}
func (u *setUniverse) Inside(x Inst) bool { return true }
func (u *setUniverse) Calls(x Inst) []Call {
	var vals []int // elements 0..n-1 (0 is the Go zero value)
	for v := 0; v < u.n; v++ {
		vals = append(vals, v)
	}
	var cs []Call
	for _, t := range tuples(vals, u.argLen) {
		if len(t) == 3 && !(t[0] == t[2] || t[0] < t[1]) {
			continue // a sample of the triples: duplicates inside one call and ascending prefixes
		}
		cs = append(cs, Call{Op: "Add", Vs: t}, Call{Op: "Remove", Vs: t}, Call{Op: "Contains", Vs: t})
	}
	cs = append(cs, Call{Op: "Remove", Vs: []int{u.n}}, Call{Op: "Contains", Vs: []int{1, u.n}}, Call{Op: "Remove", Vs: []int{-1}},
		Call{Op: "Clear"}, Call{Op: "Values"}, Call{Op: "Size"}, Call{Op: "Empty"}, Call{Op: "String"},
		Call{Op: "New", Vs: []int{2, 0, 2}}, Call{Op: "New", Vs: []int{}})
	if isDflt(u.cmp) {
		return cs
	}
	cs = append(cs, Call{Op: "FromJSON", Vs: []int{}}, Call{Op: "FromJSON", Vs: []int{1, 0}, S: "bad"}, Call{Op: "FromJSON", Vs: []int{2, 0, 2, 1}},
		// long argument lists: members, non-members and duplicates mixed
		Call{Op: "Remove", Vs: []int{1, 3, 100, 101, 102, 0, 104, 105, 1}}, Call{Op: "Add", Vs: []int{3, 0, 3, 1, 2, 1, 0, 2, 3, 3}},
		Call{Op: "Contains", Vs: []int{0, 0, 0, 0, 0, 0, 0, 0}})
	return cs
}

type setRandom struct {
	kind string
	cmp  string
	n    int
}

func (u *setRandom) New() Inst {
	f := cmpInt(u.cmp)
	var probe []int
	for v := -1; v <= u.n; v++ {
		probe = append(probe, v)
	}
	return &setInst{kind: u.kind, cmp: u.cmp, s: newSet(u.kind, f), probe: probe, cmpF: f}
}
func (u *setRandom) Rand(x Inst, r *rand.Rand) Call {
	vs := randVals0(r, u.n+1, 5)
	switch p := r.Intn(20); {
	case p < 8:
		return Call{Op: "Add", Vs: vs}
	case p < 14:
		return Call{Op: "Remove", Vs: vs}
	case p < 17:
		return Call{Op: "Contains", Vs: vs}
	case p < 18:
		if r.Intn(5) == 0 {
			return Call{Op: "Clear"}
		}
		return Call{Op: "Values"}
	default:
		return Call{Op: []string{"Size", "Empty", "String"}[r.Intn(3)]}
	}
}

// ---------------------------------------------------------------------------------------------
// set algebra (C13): one event per (a, b, operation) with the observations of a, b and the result
// before and after, followed by mutations of each of the three objects.

type algSet interface {
	sets.Set[int]
}

func algebra(kind string, a, b sets.Set[int], op string) sets.Set[int] {
	switch x := a.(type) {
	case *hashset.Set[int]:
		y := b.(*hashset.Set[int])
		switch op {
		case "Intersection":
			return x.Intersection(y)
		case "Union":
			return x.Union(y)
		case "Difference":
			return x.Difference(y)
		}
	case *treeset.Set[int]:
		y := b.(*treeset.Set[int])
		switch op {
		case "Intersection":
			return x.Intersection(y)
		case "Union":
			return x.Union(y)
		case "Difference":
			return x.Difference(y)
		}
	case *linkedhashset.Set[int]:
		y := b.(*linkedhashset.Set[int])
		switch op {
		case "Intersection":
			return x.Intersection(y)
		case "Union":
			return x.Union(y)
		case "Difference":
			return x.Difference(y)
		}
	}
	die("algebra: bad kind")
	return nil
}

// build a set by a history (not only by the constructor): add everything in hist order, remove `rm`
func buildSet(kind string, f func(a, b int) int, members []int, viaRemove bool, n int) sets.Set[int] {
	if !viaRemove {
		return newSet(kind, f, members...)
	}
	s := newSet(kind, f)
	for v := n; v >= 0; v-- {
		s.Add(v)
	}
	in := map[int]bool{}
	for _, m := range members {
		in[m] = true
		s.Add(m)
	}
	for v := 0; v <= n; v++ {
		if !in[v] && !s.Contains(v) {
			continue
		}
		if !in[v] {
			// under a many-to-one comparator v may be "the same" as a member: removing it would remove the member
			same := false
			for _, m := range members {
				if f != nil && f(m, v) == 0 {
					same = true
				}
			}
			if !same {
				s.Remove(v)
			}
		}
	}
	for _, m := range members { // the representative stored for a member is the member itself
		s.Add(m)
	}
	return s
}

// buildSetMode: the same members, arrived at in different ways - the constructor, a history with removals, and as the RESULT
// of Select, of Map, of a set operation, of a load (a result is a set like any other: the algebra must take it as an operand)
func buildSetMode(kind string, f func(a, b int) int, members []int, mode, n int) sets.Set[int] {
	switch mode {
	case 0:
		return buildSet(kind, f, members, false, n)
	case 1:
		return buildSet(kind, f, members, true, n)
	}
	base := buildSet(kind, f, members, false, n)
	in := map[int]bool{}
	for _, m := range members {
		in[m] = true
	}
	switch t := base.(type) {
	case *treeset.Set[int]:
		switch mode {
		case 2:
			t.Add(n+1, n+2)
			return t.Select(func(i, v int) bool { return in[v] })
		case 3:
			return t.Map(func(i, v int) int { return v })
		case 4:
			return t.Union(t)
		}
	case *linkedhashset.Set[int]:
		switch mode {
		case 2:
			t.Add(n+1, n+2)
			return t.Select(func(i, v int) bool { return in[v] })
		case 3:
			return t.Map(func(i, v int) int { return v })
		case 4:
			return t.Union(t)
		}
	case *hashset.Set[int]:
		if mode == 4 || mode == 2 {
			return t.Union(t)
		}
		if mode == 3 {
			return t.Intersection(t)
		}
	}
	// 5: a load of the members' JSON text into a fresh set
	fresh := newSet(kind, f)
	if b, err := json.Marshal(ints(members)); err == nil {
		if j, ok := fresh.(jsonable); ok && j.FromJSON(b) == nil {
			return fresh
		}
	}
	return base
}

func subsets(n int) [][]int {
	var out [][]int
	for m := 0; m < 1<<n; m++ {
		var s []int
		for i := 0; i < n; i++ {
			if m&(1<<i) != 0 {
				s = append(s, i+1)
			}
		}
		out = append(out, s)
	}
	return out
}

// large operands: ranges that are disjoint, touch in exactly one element, overlap, nest; both relative sizes
func bigAlgPairs() [][2][]int {
	a := rangeInts(0, 21)
	return [][2][]int{{a, rangeInts(20, 46)}, {rangeInts(20, 46), a}, {a, rangeInts(21, 40)}, {a, rangeInts(10, 30)},
		{a, rangeInts(5, 18)}, {rangeInts(5, 18), a}, {a, a}, {rangeInts(0, 40), rangeInts(38, 40)}, {rangeInts(0, 13), rangeInts(1, 14)},
		// members that a many-to-one comparator cannot tell apart but that are different values (2k and 2k+1)
		{everyOther(0, 40), everyOther(1, 41)}, {everyOther(1, 41), everyOther(0, 40)}, {everyOther(0, 40), everyOther(9, 29)}}
}

// operands of hundreds and thousands of members: similar sizes, one twice the other, an element of b beyond max(a), nested,
// disjoint, identical; under the many-to-one comparator the members 2k / 2k+1 collapse
func hugeAlgPairs(quick bool) [][2][]int {
	ps := [][2][]int{{rangeInts(0, 400), rangeInts(200, 601)}, {rangeInts(200, 601), rangeInts(0, 400)}, {rangeInts(0, 300), rangeInts(300, 600)},
		{rangeInts(600, 0), rangeInts(100, 500)}, {everyOther(0, 1200), everyOther(1, 1201)}, {rangeInts(0, 520), rangeInts(0, 520)},
		{rangeInts(0, 1100), rangeInts(1000, 1030)}, {rangeInts(1000, 1030), rangeInts(0, 1100)}}
	if !quick {
		ps = append(ps, [2][]int{rangeInts(0, 4500), rangeInts(2000, 9001)}, [2][]int{rangeInts(9000, 1999), rangeInts(0, 4500)},
			[2][]int{rangeInts(0, 70000), rangeInts(69990, 70010)})
	} else {
		ps = append(ps, [2][]int{rangeInts(0, 4200), rangeInts(100, 4301)})
	}
	return ps
}

func everyOther(a, b int) []int {
	var out []int
	for i := a; i < b; i += 2 {
		out = append(out, i)
	}
	return out
}

func jobAlg(j *jobCtx) {
	n := 4
	if !j.quick() {
		n = 5
	}
	var probe []int
	for v := 0; v <= n+1; v++ {
		probe = append(probe, v)
	}
	type cfgT struct{ kind, cmp string }
	cfgs := []cfgT{{"hashset", ""}, {"linkedhashset", ""}, {"treeset", "nat"}, {"treeset", "revx"}, {"treeset", "half"}}
	subs := subsets(n)
	nsmall := len(subs)
	for _, bp := range bigAlgPairs() {
		subs = append(subs, bp[0], bp[1])
	}
	nbig := len(subs)
	for _, bp := range hugeAlgPairs(j.quick()) {
		subs = append(subs, bp[0], bp[1])
	}
	bigProbe := rangeInts(-1, 48)
	hugeProbe := []int{-1, 0, 1, 2, 199, 200, 299, 300, 399, 400, 401, 599, 600, 601, 1199, 1200, 4300, 4301, 70009, 70010}
	for _, c := range cfgs {
		if !j.want(c.kind) {
			continue
		}
		f := cmpInt(c.cmp)
		cfg := Ev{"zero": 0, "sorted": c.kind == "treeset", "cmp": baseCmp(c.cmp), "linked": c.kind == "linkedhashset"}
		for ai, am := range subs {
			for bi, bm := range subs {
				// small operands: all pairs; large operands: the pairs they were made for (consecutive entries)
				if (ai >= nsmall || bi >= nsmall) && !(ai >= nsmall && bi == ai+1 && (ai-nsmall)%2 == 0) && !(ai >= nsmall && ai == bi) {
					continue
				}
				probe := probe
				n := n
				if ai >= nsmall {
					probe, n = bigProbe, 46
				}
				huge := ai >= nbig
				if huge {
					probe, n = hugeProbe, 70010
				}
				for _, op := range []string{"Intersection", "Union", "Difference"} {
					for _, alias := range []bool{false, true} {
						if alias && ai != bi {
							continue
						}
						modeA, modeB := (ai*5+bi)%6, (ai+bi*5+3)%6
						if huge {
							modeA, modeB = 0, 0
						}
						var a, b sets.Set[int]
						gi := guard("alg", c.kind, "Build", func() {
							a = buildSetMode(c.kind, f, am, modeA, n)
							b = a
							if !alias {
								b = buildSetMode(c.kind, f, bm, modeB, n)
							}
						})
						if gi.Panic || a == nil || b == nil {
							continue
						}
						obad, omsg := false, ""
						obs := func(s sets.Set[int]) Ev { return observeSetSafe(c.kind, s, probe, &obad, &omsg) }
						e := Ev{"fam": "alg", "kind": c.kind, "cfg": cfg, "op": op, "alias": alias, "rs": 1, "timeout": false,
							"a0": obs(a), "b0": obs(b)}
						var r sets.Set[int]
						fa0, fb0 := fpOf(purityString(a)), fpOf(purityString(b))
						ci := invoke(e, func() { r = algebra(c.kind, a, b, op) })
						e["panic"], e["pmsg"], e["out"], e["cmps"] = ci.Panic, ci.PMsg, ci.Out, ci.Cmps
						e["obsbad"] = false
						if ci.Panic || r == nil {
							e["obsbad"] = true
							e["a1"], e["b1"], e["r1"] = 0, 0, 0
							e["mut"] = []Ev{}
							e["pure"] = false
							emit(e)
							continue
						}
						e["a1"], e["b1"], e["r1"] = obs(a), obs(b), obs(r)
						if obad { // an observer of an operand or of the result did not return: the call is not "completed"
							e["panic"], e["pmsg"] = true, omsg
						}
						e["pure"] = fa0 == fpOf(purityString(a)) && fb0 == fpOf(purityString(b))
						// independence: mutate each of the three objects in turn and observe all three
						muts := []Ev{}
						objs := []sets.Set[int]{a, b, r}
						for who := 0; who < 3; who++ {
							for mi, m := range []Call{{Op: "Add", Vs: []int{n + 1}}, {Op: "Remove", Vs: []int{1, 2}}, {Op: "Clear"}} {
								if huge && mi != who { // three observations of three huge sets per mutation: one mutation per object
									continue
								}
								mi := invoke(e, func() {
									switch m.Op {
									case "Add":
										objs[who].Add(m.Vs...)
									case "Remove":
										objs[who].Remove(m.Vs...)
									case "Clear":
										objs[who].Clear()
									}
								})
								mbad, mmsg := false, ""
								mo := func(s sets.Set[int]) Ev { return observeSetSafe(c.kind, s, probe, &mbad, &mmsg) }
								oa, ob, or := mo(a), mo(b), mo(r)
								muts = append(muts, Ev{"who": who + 1, "op": m.Op, "vs": ints(m.Vs), "panic": mi.Panic || mbad, "a": oa, "b": ob, "r": or})
							}
						}
						e["mut"] = muts
						emit(e)
						distinct[c.kind+c.cmp+op+itoa(ai)+"/"+itoa(bi)] = struct{}{}
					}
				}
			}
		}
	}
}

// ---------------------------------------------------------------------------------------------
// heaps

type heapInst struct {
	kind string
	cmp  string
	lite bool // scale scripts: the iterator walk and String() (each as costly as Values()) in every 8th size only
	h    *binaryheap.Heap[PE]
	q    *priorityqueue.Queue[PE]
}

func newHeapInst(kind, cmp string) *heapInst {
	x := &heapInst{kind: kind, cmp: cmp}
	if kind == "binaryheap" {
		x.h = binaryheap.NewWith[PE](cmpPE(cmp))
	} else {
		x.q = priorityqueue.NewWith[PE](cmpPE(cmp))
	}
	return x
}

func (x *heapInst) Fam() string  { return "heap" }
func (x *heapInst) Kind() string { return x.kind }
func (x *heapInst) Cfg() Ev      { return Ev{"zero": PE{}, "cmp": baseCmp(x.cmp)} }
func (x *heapInst) Target() any {
	if x.h != nil {
		return x.h
	}
	return x.q
}
func (x *heapInst) Mask() reflect.Type { return nil }
func (x *heapInst) Mutates(op string) bool {
	switch op {
	case "Push", "Pop", "Enqueue", "Dequeue", "Clear", "FromJSON":
		return true
	}
	return false
}

func pes(v []PE) []PE {
	if v == nil {
		return []PE{}
	}
	return v
}

func (x *heapInst) Observe() Ev {
	var vals, iter []PE
	var size int
	var empty bool
	var name string
	var pv PE
	var pok bool
	if x.h != nil {
		size = x.h.Size()
	} else {
		size = x.q.Size()
	}
	full := !x.lite || size%8 == 0
	if x.h != nil {
		vals, empty = x.h.Values(), x.h.Empty()
		pv, pok = x.h.Peek()
		if full {
			name = firstLine(x.h.String())
			it := x.h.Iterator()
			for i := 0; it.Next() && i < 1<<20; i++ {
				iter = append(iter, it.Value())
			}
		}
	} else {
		vals, empty = x.q.Values(), x.q.Empty()
		pv, pok = x.q.Peek()
		if full {
			name = firstLine(x.q.String())
			it := x.q.Iterator()
			for i := 0; it.Next() && i < 1<<20; i++ {
				iter = append(iter, it.Value())
			}
		}
	}
	if !full {
		name = map[string]string{"binaryheap": "BinaryHeap", "priorityqueue": "PriorityQueue"}[x.kind]
	}
	return Ev{"vals": pes(vals), "size": size, "empty": empty, "name": name, "peek": []any{pv, pok}, "iter": pes(iter), "hasiter": full}
}

func pesOf(c Call) []PE {
	out := make([]PE, 0, len(c.Vs))
	for _, v := range c.Vs {
		out = append(out, PE{P: v / 10, ID: v % 10})
	}
	return out
}

// elements are coded in Call.Vs as 10*p + id
func (x *heapInst) Do(c Call) []any {
	switch c.Op {
	case "Push":
		x.h.Push(pesOf(c)...)
	case "Enqueue":
		x.q.Enqueue(pesOf(c)[0])
	case "Pop":
		v, ok := x.h.Pop()
		return []any{v, ok}
	case "Dequeue":
		v, ok := x.q.Dequeue()
		return []any{v, ok}
	case "Peek":
		if x.h != nil {
			v, ok := x.h.Peek()
			return []any{v, ok}
		}
		v, ok := x.q.Peek()
		return []any{v, ok}
	case "Clear":
		if x.h != nil {
			x.h.Clear()
		} else {
			x.q.Clear()
		}
	case "FromJSON":
		b, _ := json.Marshal(pesOf(c))
		b = loadText(c, b)
		var err error
		if x.h != nil {
			err = x.h.FromJSON(b)
		} else {
			err = x.q.FromJSON(b)
		}
		return []any{err == nil}
	case "Values":
		if x.h != nil {
			return []any{pes(x.h.Values())}
		}
		return []any{pes(x.q.Values())}
	case "Size":
		if x.h != nil {
			return []any{x.h.Size()}
		}
		return []any{x.q.Size()}
	case "Empty":
		if x.h != nil {
			return []any{x.h.Empty()}
		}
		return []any{x.q.Empty()}
	case "String":
		if x.h != nil {
			return []any{firstLine(x.h.String())}
		}
		return []any{firstLine(x.q.String())}
	default:
		die("heap: unknown op %s", c.Op)
	}
	return nil
}

// heap events log the pushed elements as records: override the argument rendering
func heapArgs(c Call) Ev {
	return Ev{"es": pesOf(c)}
}

type heapUniverse struct {
	kind   string
	cmp    string
	elems  []int // 10*p+id
	maxLen int
}

func (u *heapUniverse) New() Inst { return newHeapInst(u.kind, u.cmp) }
func (u *heapUniverse) Inside(x Inst) bool {
	h := x.(*heapInst)
	if h.h != nil {
		return h.h.Size() <= u.maxLen
	}
	return h.q.Size() <= u.maxLen
}
func (u *heapUniverse) Calls(x Inst) []Call {
	if !u.Inside(x) {
		return nil
	}
	var cs []Call
	if u.kind == "binaryheap" {
		for _, t := range tuples(u.elems, 2) {
			cs = append(cs, Call{Op: "Push", Vs: t})
		}
		n := len(u.elems)
		// triples: descending, ascending and a mixed one (bulk heapify loop bounds)
		cs = append(cs, Call{Op: "Push", Vs: []int{u.elems[n-1], u.elems[n/2], u.elems[0]}},
			Call{Op: "Push", Vs: []int{u.elems[0], u.elems[n/2], u.elems[n-1]}},
			Call{Op: "Push", Vs: []int{u.elems[n/2], u.elems[n-1], u.elems[0]}},
			Call{Op: "Push", Vs: []int{u.elems[n-1], u.elems[n-2], u.elems[1], u.elems[0]}},
			Call{Op: "Pop"})
	} else {
		for _, e := range u.elems {
			cs = append(cs, Call{Op: "Enqueue", Vs: []int{e}})
		}
		cs = append(cs, Call{Op: "Dequeue"})
	}
	n := len(u.elems)
	cs = append(cs, Call{Op: "Peek"}, Call{Op: "Clear"}, Call{Op: "Values"}, Call{Op: "Size"}, Call{Op: "Empty"}, Call{Op: "String"},
		Call{Op: "FromJSON", Vs: []int{}},
		Call{Op: "FromJSON", Vs: []int{u.elems[0]}},
		Call{Op: "FromJSON", Vs: []int{u.elems[n-1], u.elems[0]}},
		Call{Op: "FromJSON", Vs: []int{u.elems[0], u.elems[n-1]}},
		Call{Op: "FromJSON", Vs: []int{u.elems[n-1], u.elems[n/2], u.elems[0]}},
		Call{Op: "FromJSON", Vs: []int{u.elems[n/2], u.elems[n-1], u.elems[0], u.elems[1]}},
		Call{Op: "FromJSON", Vs: []int{u.elems[n-1], u.elems[0]}, S: "bad"})
	return cs
}

type heapRandom struct {
	kind string
	cmp  string
	np   int
	ctr  int
}

func (u *heapRandom) New() Inst { u.ctr = 0; return newHeapInst(u.kind, u.cmp) }
func (u *heapRandom) Rand(x Inst, r *rand.Rand) Call {
	el := func() int { u.ctr++; return 10*(1+r.Intn(u.np)) + u.ctr%10 }
	h := x.(*heapInst)
	size := 0
	if h.h != nil {
		size = h.h.Size()
	} else {
		size = h.q.Size()
	}
	grow := 9
	if size > 24 {
		grow = 4
	}
	p := r.Intn(20)
	switch {
	case p < grow:
		if u.kind == "binaryheap" {
			k := []int{1, 1, 1, 0, 2, 3, 5}[r.Intn(7)]
			vs := make([]int, k)
			for i := range vs {
				vs[i] = el()
			}
			return Call{Op: "Push", Vs: vs}
		}
		return Call{Op: "Enqueue", Vs: []int{el()}}
	case p < 15:
		if u.kind == "binaryheap" {
			return Call{Op: "Pop"}
		}
		return Call{Op: "Dequeue"}
	case p < 16:
		k := r.Intn(6)
		vs := make([]int, k)
		for i := range vs {
			vs[i] = el()
		}
		return Call{Op: "FromJSON", Vs: vs}
	case p < 17:
		if r.Intn(4) == 0 {
			return Call{Op: "Clear"}
		}
		return Call{Op: "Peek"}
	default:
		return Call{Op: []string{"Values", "Size", "Empty", "String", "Peek"}[r.Intn(5)]}
	}
}
