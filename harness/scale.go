package main

import (
	"math"

	"github.com/emirpasic/gods/v2/queues/circularbuffer"
)

// Scale: states of a thousand and more elements, argument lists of hundreds of values (with
// repeats), and churn histories of thousands of calls on one instance that never becomes empty.
// These are ordinary family events (complete observations, validated by the same trace
// specifications): what changes is only where in the input space they lie - beyond the powers
// of two (256, 512, 1024, 4096, 65536 products) at which an implementation may switch algorithm,
// compact, shrink or rebuild.

// scaleN: container sizes of the one-call-at-a-time scripts (their logs grow quadratically)
func scaleN(j *jobCtx) int {
	if j.quick() {
		return 1100
	}
	return 1600
}

// churnN: number of rounds of the churn scripts
func churnN(j *jobCtx) int {
	if j.quick() {
		return 4500
	}
	return 10000
}

// doubled: every value twice, in two interleavings
func doubled(vs []int, adjacent bool) []int {
	out := make([]int, 0, 2*len(vs))
	if adjacent {
		for _, v := range vs {
			out = append(out, v, v)
		}
		return out
	}
	return append(append(out, vs...), vs...)
}

func perm(n, mul int) []int { // i -> (i*mul) mod n, a permutation when gcd(mul, n) = 1
	out := make([]int, n)
	for i := range out {
		out[i] = (i * mul) % n
	}
	return out
}

// ---------------------------------------------------------------------------------------------
// lists

func scaleSeq(j *jobCtx, kind string) {
	// (a) one large state made by bulk calls, then long argument lists
	n := 2600
	x := &seqInst{kind: kind, l: newList(kind), probe: []int{0, 1, 7, 1299, 1300, 99999}}
	vals := make([]int, n)
	for i := range vals {
		vals[i] = (i * 7) % 1300
	}
	dup300 := make([]int, 300)
	for i := range dup300 {
		dup300[i] = (i % 150) * 3
	}
	cs := []Call{{Op: "Add", Vs: vals},
		{Op: "Contains", Vs: dup300}, {Op: "Contains", Vs: append(append([]int{}, dup300...), 1300)},
		{Op: "Contains", Vs: rangeInts(1300, 0)}, {Op: "Contains", Vs: doubled(rangeInts(0, 200), true)},
		{Op: "IndexOf", V: 1299}, {Op: "IndexOf", V: 5000}, {Op: "Get", I: n - 1}, {Op: "Get", I: n},
		{Op: "Insert", I: n / 2, Vs: rangeInts(2000, 2300)}, {Op: "Insert", I: 0, Vs: rangeInts(3000, 3257)},
		{Op: "Insert", I: n + 557, Vs: rangeInts(4000, 4256)}, {Op: "Insert", I: n + 557 + 257, Vs: []int{1}},
		{Op: "Remove", I: 0}, {Op: "Remove", I: n + 811}, {Op: "Remove", I: 1500}, {Op: "Set", I: n + 810, V: 5}, {Op: "Set", I: 1000, V: 4},
		{Op: "Swap", I: 0, J: n + 810}, {Op: "Contains", Vs: doubled(rangeInts(3000, 3257), false)}, {Op: "Sort", Cmp: "natx"}, {Op: "Get", I: 3000},
		{Op: "FromJSON", Vs: rangeInts(1500, 0)}, {Op: "Add", Vs: rangeInts(0, 600)}, {Op: "Sort", Cmp: "half"}, {Op: "Values"},
		{Op: "Clear"}, {Op: "Add", Vs: []int{3, 1, 2}}, {Op: "Remove", I: 1}}
	if kind != "arraylist" {
		cs = append(cs, Call{Op: "Prepend", Vs: rangeInts(300, 0)}, Call{Op: "Append", Vs: rangeInts(0, 300)})
	}
	runScript(x, cs)

	// (b) grown and shrunk one call at a time across every power of two up to scaleN
	m := scaleN(j)
	x = &seqInst{kind: kind, l: newList(kind), probe: []int{0, 1, 2, 96, 99}}
	cs = nil
	for i := 0; i < m; i++ {
		cs = append(cs, Call{Op: "Add", Vs: []int{i % 97}})
	}
	cs = append(cs, Call{Op: "Contains", Vs: doubled(rangeInts(0, 97), true)}, Call{Op: "Contains", Vs: append(rangeInts(0, 97), 97)})
	for i := m; i > m/5; i-- { // remove at the front, the back and inside in turn
		switch i % 3 {
		case 0:
			cs = append(cs, Call{Op: "Remove", I: 0})
		case 1:
			cs = append(cs, Call{Op: "Remove", I: i - 1})
		default:
			cs = append(cs, Call{Op: "Remove", I: i / 2})
		}
	}
	cs = append(cs, Call{Op: "Add", Vs: []int{5}}, Call{Op: "Insert", I: 3, Vs: []int{6, 7}}, Call{Op: "Values"})
	runScript(x, cs)
}

// a window of about 20 elements that slides for thousands of rounds: the list is never empty
func churnSeq(j *jobCtx, kind string) {
	x := &seqInst{kind: kind, l: newList(kind), probe: []int{0, 1, 2, 3, 99}}
	cs := []Call{{Op: "Add", Vs: perm(20, 7)}}
	size := 20
	for r := 0; r < churnN(j); r++ {
		v := (r * 11) % 23
		switch {
		case r%64 == 63:
			cs = append(cs, Call{Op: "Insert", I: size / 2, Vs: []int{v, v + 1}}, Call{Op: "Remove", I: size / 2}, Call{Op: "Remove", I: 0})
		case r%97 == 96:
			cs = append(cs, Call{Op: "Set", I: size - 1, V: v}, Call{Op: "Swap", I: 0, J: size - 1})
		case r%2 == 0:
			cs = append(cs, Call{Op: "Add", Vs: []int{v}}, Call{Op: "Remove", I: 0})
		default:
			if kind == "arraylist" {
				cs = append(cs, Call{Op: "Insert", I: 0, Vs: []int{v}}, Call{Op: "Remove", I: size})
			} else {
				cs = append(cs, Call{Op: "Prepend", Vs: []int{v}}, Call{Op: "Remove", I: size})
			}
		}
	}
	cs = append(cs, Call{Op: "Values"}, Call{Op: "IndexOf", V: 3}, Call{Op: "Contains", Vs: []int{1, 2}})
	runScript(x, cs)
}

// ---------------------------------------------------------------------------------------------
// stacks, queues, ring

func scaleQue(j *jobCtx, kind string) {
	put, take := "Enqueue", "Dequeue"
	if queDisc(kind) == "lifo" {
		put, take = "Push", "Pop"
	}
	m := scaleN(j)
	caps := []int{0}
	if kind == "circularbuffer" {
		caps = []int{m, 300}
	}
	for _, c := range caps {
		x := &queInst{kind: kind, cap: c, q: newQue(kind, c)}
		var cs []Call
		for i := 0; i < m; i++ { // fill (the ring of capacity 300 overwrites), look, drain completely, use again
			cs = append(cs, Call{Op: put, V: i%251 + 1})
		}
		cs = append(cs, Call{Op: "Peek"}, Call{Op: "Size"})
		for i := 0; i < m+2; i++ {
			cs = append(cs, Call{Op: take})
		}
		cs = append(cs, Call{Op: put, V: 7}, Call{Op: put, V: 8}, Call{Op: take}, Call{Op: "Values"},
			Call{Op: "FromJSON", Vs: rangeInts(0, 700)}, Call{Op: take}, Call{Op: put, V: 9}, Call{Op: "Peek"})
		runScript(x, cs)
	}
}

// rings of capacities that are no power of two and no multiple of 64, filled by bursts of enqueues with shorter bursts
// of dequeues in between (net growth while the window is wrapped around), run full, overwritten, drained
func ringGrowth(j *jobCtx) {
	caps := []int{70, 100, 150, 777}
	if !j.quick() {
		caps = append(caps, 65, 97, 130, 200, 1000, 1500)
	}
	for _, c := range caps {
		x := &queInst{kind: "circularbuffer", cap: c, q: newQue("circularbuffer", c)}
		var cs []Call
		v, size := 0, 0
		for round := 0; round < 40 && len(cs) < 7*c; round++ {
			in := 10 + j.r.Intn(55)
			if round == 0 {
				in = 64
			}
			for i := 0; i < in; i++ {
				v++
				cs = append(cs, Call{Op: "Enqueue", V: v%997 + 1})
				if size < c {
					size++
				}
			}
			out := 5 + j.r.Intn(50)
			if out > size-1 {
				out = size - 1
			}
			for i := 0; i < out; i++ {
				cs = append(cs, Call{Op: "Dequeue"})
				size--
			}
			if round%5 == 4 {
				cs = append(cs, Call{Op: "Peek"}, Call{Op: "Values"}, Call{Op: "Full"})
			}
		}
		for i := 0; i < c+3; i++ { // overwrite a full ring, then drain it
			v++
			cs = append(cs, Call{Op: "Enqueue", V: v%997 + 1})
		}
		for i := 0; i < c+2; i++ {
			cs = append(cs, Call{Op: "Dequeue"})
		}
		cs = append(cs, Call{Op: "Enqueue", V: 5}, Call{Op: "Values"})
		runScript(x, cs)
	}
}

// rings of zero-size elements with the largest capacities an int can express (index arithmetic near MaxInt)
func ringZeroSize(j *jobCtx) {
	for _, c := range []int{math.MaxInt, math.MaxInt - 1, math.MaxInt / 2, 1 << 40} {
		var x *queInst
		gi := guard("que", "circularbuffer", "New", func() {
			x = &queInst{kind: "circularbuffer", cap: c, q: zsRing{circularbuffer.New[struct{}](c)}}
		})
		if gi.Panic || x == nil {
			continue
		}
		cs := []Call{{Op: "Size"}, {Op: "Enqueue"}, {Op: "Size"}, {Op: "Enqueue"}, {Op: "Peek"}, {Op: "Values"}, {Op: "Full"}, {Op: "Dequeue"}, {Op: "Enqueue"},
			{Op: "Enqueue"}, {Op: "Clear"}, {Op: "Enqueue"}, {Op: "Size"}, {Op: "Dequeue"}, {Op: "Dequeue"}, {Op: "Enqueue"}, {Op: "Values"}}
		runScript(x, cs)
	}
}

// a window of about 50 elements that slides for thousands of rounds: the container is never empty
func churnQue(j *jobCtx, kind string) {
	put, take := "Enqueue", "Dequeue"
	if queDisc(kind) == "lifo" {
		put, take = "Push", "Pop"
	}
	caps := []int{0}
	if kind == "circularbuffer" {
		caps = []int{64, 50}
	}
	for _, c := range caps {
		x := &queInst{kind: kind, cap: c, q: newQue(kind, c)}
		var cs []Call
		for i := 0; i < 50; i++ {
			cs = append(cs, Call{Op: put, V: i + 1})
		}
		for r := 0; r < churnN(j); r++ {
			cs = append(cs, Call{Op: put, V: r%89 + 1}, Call{Op: take})
			if r%512 == 511 {
				cs = append(cs, Call{Op: "Peek"}, Call{Op: take}, Call{Op: put, V: 3})
			}
		}
		for i := 0; i < 52; i++ {
			cs = append(cs, Call{Op: take})
		}
		cs = append(cs, Call{Op: put, V: 5}, Call{Op: "Values"})
		runScript(x, cs)
	}
}

// ---------------------------------------------------------------------------------------------
// sets

func scaleSet(j *jobCtx, kind string) {
	cmps := []string{"nat"}
	if kind == "treeset" {
		cmps = []string{"nat", "halfx"}
	}
	for _, cmp := range cmps {
		f := cmpInt(cmp)
		// (a) bulk calls with long argument lists: members only with repeats, at least as many arguments as members,
		//     exactly the members, members and strangers mixed
		probe := []int{-1, 0, 1, 2, 199, 200, 399, 400, 401, 2599, 2600}
		x := &setInst{kind: kind, cmp: cmp, s: newSet(kind, f), probe: probe, cmpF: f}
		step2 := 1
		if cmp == "halfx" {
			step2 = 2 // members 0, 2, 4 ...: different under the comparator
		}
		mem := func(a, b int) []int {
			var out []int
			for i := a; i < b; i++ {
				out = append(out, i*step2)
			}
			return out
		}
		cs := []Call{{Op: "Add", Vs: mem(0, 400)},
			{Op: "Contains", Vs: doubled(mem(0, 200), true)}, {Op: "Contains", Vs: append(doubled(mem(0, 200), false), 400*step2)},
			{Op: "Remove", Vs: doubled(mem(0, 200), true)}, // 400 arguments, all members, 200 different ones: 200 members stay
			{Op: "Contains", Vs: mem(200, 400)}, {Op: "Values"},
			{Op: "Remove", Vs: append(mem(200, 300), mem(1000, 1200)...)}, {Op: "Add", Vs: doubled(mem(0, 300), false)},
			{Op: "Remove", Vs: mem(0, 400)}, // exactly the members: empty
			{Op: "Add", Vs: mem(2600, 0)}, {Op: "Contains", Vs: mem(0, 2600)}, {Op: "Contains", Vs: doubled(mem(2300, 2600), true)},
			{Op: "Remove", Vs: doubled(mem(0, 1300), true)}, {Op: "Size"}, {Op: "Remove", Vs: mem(1300, 2590)}, {Op: "Values"},
			{Op: "FromJSON", Vs: doubled(mem(0, 700), false)}, {Op: "Add", Vs: mem(690, 710)}, {Op: "Clear"}, {Op: "Add", Vs: []int{2, 0, 2}}}
		runScript(x, cs)

		// (b) one member at a time up to scaleN and down below a quarter, then the last removed members again
		m := scaleN(j)
		x = &setInst{kind: kind, cmp: cmp, s: newSet(kind, f), probe: []int{-1, 0, 1, 2, 3, m * step2}, cmpF: f}
		cs = nil
		order := perm(m, 7)
		if m%7 == 0 {
			order = perm(m, 11)
		}
		for _, v := range order {
			cs = append(cs, Call{Op: "Add", Vs: []int{v * step2}})
		}
		for i := m - 1; i >= m/5; i-- {
			cs = append(cs, Call{Op: "Remove", Vs: []int{order[i] * step2}})
		}
		for i := m / 5; i < m/5+40; i++ {
			cs = append(cs, Call{Op: "Add", Vs: []int{order[i] * step2}})
		}
		cs = append(cs, Call{Op: "Values"}, Call{Op: "Contains", Vs: []int{order[m/5] * step2, order[0] * step2}})
		runScript(x, cs)
	}
}

// ---------------------------------------------------------------------------------------------
// heaps

func scaleHeap(j *jobCtx, kind string) {
	m := 530 // Values(), String() and the iterator of a heap cost n * level size each: one call at a time only up to here
	for ci, cmp := range []string{"prio", "maxpriox"} {
		if j.quick() && ci > 0 && kind == "priorityqueue" {
			continue
		}
		x := newHeapInst(kind, cmp)
		x.lite = true
		put, take := "Push", "Pop"
		if kind == "priorityqueue" {
			put, take = "Enqueue", "Dequeue"
		}
		var cs []Call
		for i := 0; i < m; i++ {
			cs = append(cs, Call{Op: put, Vs: []int{10*((i*37)%211) + i%10}})
		}
		if kind == "binaryheap" { // bulk pushes onto a large heap: few values (one by one) and many (heapify)
			cs = append(cs, Call{Op: "Push", Vs: []int{5, 2114, 7}}, Call{Op: "Push", Vs: rangeInts(1300, 1000)}, Call{Op: "Peek"})
		}
		for i := 0; i < 24; i++ {
			cs = append(cs, Call{Op: take})
		}
		cs = append(cs, Call{Op: put, Vs: []int{3}}, Call{Op: "Peek"}, Call{Op: "Values"})
		for i := 0; i < 12; i++ { // churn at that size
			cs = append(cs, Call{Op: put, Vs: []int{10*((i*53)%199) + i%10}}, Call{Op: take})
		}
		cs = append(cs, Call{Op: "FromJSON", Vs: rangeInts(1500, 300)}, Call{Op: take}, Call{Op: take}, Call{Op: put, Vs: []int{1}}, Call{Op: take}, Call{Op: "Values"})
		runScript(x, cs)
	}
}

// a heap of about 30 elements through thousands of push / pop rounds
func churnHeap(j *jobCtx, kind string) {
	x := newHeapInst(kind, "prio")
	put, take := "Push", "Pop"
	if kind == "priorityqueue" {
		put, take = "Enqueue", "Dequeue"
	}
	var cs []Call
	for i := 0; i < 30; i++ {
		cs = append(cs, Call{Op: put, Vs: []int{10*((i*7)%31) + i%10}})
	}
	for r := 0; r < churnN(j)/2; r++ {
		cs = append(cs, Call{Op: put, Vs: []int{10*((r*13)%41) + r%10}}, Call{Op: take})
	}
	runScript(x, cs)
}

// ---------------------------------------------------------------------------------------------
// maps and trees

func scaleMap(j *jobCtx, kind string) {
	type sc struct {
		cmp, vcmp string
		m         int
	}
	cfgs := []sc{{"nat", "nat", 0}}
	if kind == "btree" {
		cfgs = []sc{{"nat", "", 3}, {"nat", "", 8}, {"nat", "", 12}, {"nat", "", 32}}
		if !j.quick() {
			cfgs = append(cfgs, sc{"natx", "", 5}, sc{"nat", "", 16}, sc{"nat", "", 128})
		}
	}
	n := scaleN(j)
	if j.quick() && mapSorted(kind) {
		n = 600 // (the hash kinds, which rehash, shrink and compact by size, go to 1100 in the quick tier; everything to 1600 in the thorough one)
	}
	bidi := mapBidi(kind)
	for _, c := range cfgs {
		probeK := []int{-1, 0, 1, 2, n / 2, n - 1, n, n + 1}
		x := &mapInst{kind: kind, cmp: c.cmp, vcmp: c.vcmp, m: c.m, c: newMap(kind, c.cmp, c.vcmp, c.m), probeK: probeK, lite: true}
		if bidi {
			x.probeV = []int{-1, 0, 1, 2, n / 2, n - 1, n, n + 1}
		}
		order := perm(n, 7)
		if n%7 == 0 {
			order = perm(n, 11)
		}
		val := func(k int) int {
			if bidi {
				return order[(k+1)%n] // a permutation of the keys
			}
			return 100 + k%50
		}
		var cs []Call
		for _, k := range order { // grow one key at a time past every power of two up to n
			cs = append(cs, Call{Op: "Put", I: k, V: val(k)})
		}
		cs = append(cs, Call{Op: "Get", I: order[n-1]}, Call{Op: "Put", I: order[3], V: val(order[3])})
		low := n / 5
		for i := n - 1; i >= low; i-- { // shrink below a quarter of the peak ...
			cs = append(cs, Call{Op: "Remove", I: order[i]})
		}
		for i := low; i < low+60; i++ { // ... and put the keys removed last again: they must come back, last in a linked map
			cs = append(cs, Call{Op: "Put", I: order[i], V: val(order[i])})
		}
		cs = append(cs, Call{Op: "Get", I: order[low]}, Call{Op: "Keys"}, Call{Op: "Values"}, Call{Op: "@full"}, Call{Op: "Remove", I: order[low]},
			Call{Op: "Put", I: order[low], V: val(order[low])}, Call{Op: "Clear"}, Call{Op: "Put", I: 1, V: val(1)}, Call{Op: "Put", I: 0, V: val(0)})
		runScript(x, cs)
	}
	// a bulk load of 1500 members; under the many-to-one comparator 2k and 2k+1 are one key
	for _, cmp := range []string{"nat", "halfx"} {
		if cmp != "nat" && !mapSorted(kind) {
			continue
		}
		m := 0
		if kind == "btree" {
			m = 7
		}
		x := &mapInst{kind: kind, cmp: cmp, vcmp: "nat", m: m, c: newMap(kind, cmp, "nat", m), probeK: []int{-1, 0, 1, 2, 3, 1498, 1499, 1500},
			shape: treeKind(kind) != "" && treeKind(kind) != "rb6" && kind != "treemap"}
		if bidi {
			x.probeV = []int{-1, 0, 1, 2, 3, 1498, 1499, 1500}
		}
		var pairs []int
		for k := 1499; k >= 0; k-- {
			pairs = append(pairs, k, (k*7+3)%1500) // values: a permutation, so that a bidi map keeps every pair
		}
		cs := []Call{{Op: "Put", I: 5000, V: 1}, {Op: "FromJSON", Vs: pairs}, {Op: "Get", I: 700}, {Op: "Remove", I: 700}, {Op: "Remove", I: 701},
			{Op: "Put", I: 700, V: 1600}, {Op: "Keys"}}
		for i := 0; i < 70; i++ { // the loaded structure must take further growth and shrinking like one grown by Put
			k := (i * 37) % 1500
			if i%3 == 2 {
				cs = append(cs, Call{Op: "Remove", I: k}, Call{Op: "Remove", I: k ^ 1})
			} else {
				cs = append(cs, Call{Op: "Put", I: 1500 + 2*i, V: 1700 + i}, Call{Op: "Put", I: -2 * i, V: 1800 + i})
			}
		}
		cs = append(cs, Call{Op: "FromJSON", Vs: pairs[:600]}, Call{Op: "Put", I: 9000, V: 1601}, Call{Op: "Remove", I: 1499}, Call{Op: "Values"})
		runScript(x, cs)
	}
}

// twelve keys, thousands of puts onto present keys with new values (nine calls in ten), removals, exact repeats and
// re-insertions, no Clear: whatever an implementation counts (overwrites, deletions, tombstones), it gets into the thousands,
// and most probably during an overwriting Put; the mix is drawn from the job's seeded generator
func churnMap(j *jobCtx, kind string) {
	cmp, m := "nat", 0
	if kind == "btree" {
		m = 3
	}
	bidi := mapBidi(kind)
	runs := 1
	if bidi {
		runs = 2
	}
	for run := 0; run < runs; run++ {
		x := &mapInst{kind: kind, cmp: cmp, vcmp: "nat", m: m, c: newMap(kind, cmp, "nat", m), probeK: rangeInts(-1, 13)}
		if bidi {
			x.probeV = rangeInts(-1, 25)
		}
		var cs []Call
		for k := 0; k < 10; k++ {
			cs = append(cs, Call{Op: "Put", I: k, V: k})
		}
		for r := 0; r < 2*churnN(j); r++ {
			k := j.r.Intn(12)
			switch j.r.Intn(20) {
			case 0:
				cs = append(cs, Call{Op: "Remove", I: k})
			case 1:
				v := j.r.Intn(24)
				cs = append(cs, Call{Op: "Put", I: k, V: v}, Call{Op: "Put", I: k, V: v}) // exact repeat
			default:
				cs = append(cs, Call{Op: "Put", I: k, V: j.r.Intn(24)})
			}
		}
		cs = append(cs, Call{Op: "Keys"}, Call{Op: "Values"}, Call{Op: "Get", I: 3})
		runScript(x, cs)
	}
}
