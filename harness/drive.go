package main

// Generic drivers over an instance of some container kind:
//   tour   - breadth-first transition tour of the REAL code's reachable state graph in a bounded
//            universe: every (state, call) edge is executed once on a fresh replay of the path
//   random - seeded long histories in a larger universe with hostile arguments

import (
	"fmt"
	"math"
	"math/rand"
	"reflect"

	"github.com/emirpasic/gods/v2/maps/hashbidimap"
	"github.com/emirpasic/gods/v2/maps/hashmap"
	"github.com/emirpasic/gods/v2/maps/linkedhashmap"
	"github.com/emirpasic/gods/v2/sets/hashset"
	"github.com/emirpasic/gods/v2/sets/linkedhashset"
	"github.com/emirpasic/gods/v2/sets/treeset"
)

// Call is one public call with its arguments (uniform across families so that the logged
// argument record always has the same fields: TLC cannot cheaply test for a missing field).
type Call struct {
	Op  string
	I   int   // index / key / capacity ...
	J   int   // second index
	V   int   // value
	Vs  []int // variadic values
	Cmp string
	S   string // text argument (JSON input, predicate name ...)
}

func (c Call) A() Ev {
	return Ev{"i": clamp(c.I), "j": clamp(c.J), "v": clamp(c.V), "vs": ints(c.Vs), "cmp": baseCmp(c.Cmp), "s": c.S}
}

func (c Call) key() string {
	b := []byte(c.Op)
	b = append(b, '|')
	b = appendInt(b, c.I)
	b = append(b, '|')
	b = appendInt(b, c.J)
	b = append(b, '|')
	b = appendInt(b, c.V)
	for _, x := range c.Vs {
		b = append(b, ',')
		b = appendInt(b, x)
	}
	b = append(b, '|')
	b = append(b, c.Cmp...)
	b = append(b, '|')
	b = append(b, c.S...)
	return string(b)
}

func appendInt(b []byte, i int) []byte {
	return append(b, []byte(itoa(i))...)
}

func itoa(i int) string {
	if i == 0 {
		return "0"
	}
	neg := i < 0
	var buf [24]byte
	p := len(buf)
	u := uint64(i)
	if neg {
		u = uint64(-i)
	}
	for u > 0 {
		p--
		buf[p] = byte('0' + u%10)
		u /= 10
	}
	if neg {
		p--
		buf[p] = '-'
	}
	return string(buf[p:])
}

// Inst wraps one real container.
type Inst interface {
	Fam() string
	Kind() string
	Cfg() Ev
	Target() any        // the container, for deep serialisation
	Mask() reflect.Type // type whose values are ignored for state identity (nil: none)
	Observe() Ev        // complete abstract state through the public API
	Do(c Call) []any    // perform the call on the real container; results in declaration order
	Mutates(op string) bool
}

// Universe describes the bounded universe of a tour.
type Universe interface {
	New() Inst
	Calls(x Inst) []Call // every call of the universe applicable in the current state
	Inside(x Inst) bool  // states outside are recorded as targets but not expanded
}

var lastPanicked bool

// state identity: spare capacity counts (growth thresholds), stale slots beyond len do not
func canon(x Inst) string {
	return deepString(x.Target(), x.Mask(), false, x.Fam() == "map" || x.Fam() == "set")
}

// fullFP: fingerprint for before / after comparisons of one object in this process (purity); contentFP: address-free
func fullFP(x Inst) string    { return fpOf(purityString(x.Target())) }
func contentFP(x Inst) string { return fpOf(deepString(x.Target(), nil, true, false)) }

// fpSkip: the call in progress belongs to a long script and its deep fingerprints are not taken
var fpSkip bool

func stepFP(x Inst) string {
	if fpSkip {
		return ""
	}
	return fullFP(x)
}

func safeObserve(x Inst) (o Ev, bad bool) {
	ci := invoke(Ev{"op": "Observe", "kind": x.Kind(), "fam": x.Fam(), "cfg": x.Cfg()}, func() { o = x.Observe() })
	if ci.Panic || o == nil {
		return Ev{"obspanic": ci.PMsg}, true
	}
	return o, false
}

// step performs one logged call.  pre is the observation before the call when the event starts a
// new trace segment (rs = reset), else nil: the trace specification then continues from its own state.
func step(x Inst, c Call, rs int, pre Ev, extra Ev) (post Ev) {
	e := Ev{"fam": x.Fam(), "kind": x.Kind(), "cfg": x.Cfg(), "op": c.Op, "a": c.A(), "rs": rs,
		"timeout": false}
	if rs == 1 {
		e["pre"] = pre
	} else {
		e["pre"] = 0
	}
	fp0 := stepFP(x)
	if fpSkip {
		noteCase(x.Kind(), fmt.Sprint(x.Cfg()), "script", c.key())
	} else {
		noteCase(x.Kind(), fmt.Sprint(x.Cfg()), contentFP(x), c.key())
	}
	var r []any
	ci := invoke(e, func() { r = x.Do(c) })
	fp1 := stepFP(x)
	if r == nil {
		r = []any{}
	}
	e["r"] = r
	e["panic"] = ci.Panic
	lastPanicked = ci.Panic
	e["pmsg"] = ci.PMsg
	e["out"] = ci.Out
	e["cmps"] = ci.Cmps
	e["mut"] = x.Mutates(c.Op)
	o, bad := safeObserve(x)
	e["obsbad"] = bad
	e["post"] = o
	fp2 := stepFP(x)
	e["fp"] = []string{fp0, fp1, fp2}
	for k, v := range extra {
		e[k] = v
	}
	emit(e)
	return o
}

// tour explores the real code's reachable state graph breadth first.
func tour(u Universe, maxStates int) (states, edges int) {
	type node struct {
		path []Call
	}
	x := u.New()
	k0 := canon(x)
	seen := map[string]bool{k0: true}
	queue := []node{{nil}}
	for len(queue) > 0 {
		if budgetExceeded() {
			// a changed implementation may have a much larger state graph: stop expanding, keep the verdicts so far
			extraStats["tour_truncated"] = true
			break
		}
		n := queue[0]
		queue = queue[1:]
		states++
		// enumerate the calls applicable in this state
		x = replay(u, n.path)
		calls := u.Calls(x)
		first := true
		for _, c := range calls {
			x = replay(u, n.path)
			pre, bad := safeObserve(x)
			if bad {
				// the source state itself cannot be observed: log it on its own
				emit(Ev{"fam": x.Fam(), "kind": x.Kind(), "cfg": x.Cfg(), "op": "Sync", "a": Call{}.A(), "rs": 1,
					"pre": 0, "post": pre, "r": []any{}, "panic": true, "pmsg": "observe", "out": 0, "cmps": 0,
					"timeout": false, "mut": false, "obsbad": true, "fp": []string{"", "", ""}})
				continue
			}
			// rs = 1: new segment carrying the source observation; rs = 2: same source state as before
			if first {
				step(x, c, 1, pre, nil)
				first = false
			} else {
				step(x, c, 2, nil, nil)
			}
			edges++
			noteDistinct(x.Kind(), c)
			k := canon(x)
			if !seen[k] && len(seen) < maxStates && u.Inside(x) {
				seen[k] = true
				p := make([]Call, len(n.path)+1)
				copy(p, n.path)
				p[len(n.path)] = c
				queue = append(queue, node{p})
			}
		}
	}
	return
}

var jobDeadline int64 // unix nanos; 0 = none

func budgetExceeded() bool {
	return jobDeadline != 0 && nowNanos() > jobDeadline
}

// skeleton of a complete event for a call that may never return (the watchdog then writes it with timeout = true)
func skeleton(x Inst, c Call) Ev {
	return Ev{"fam": x.Fam(), "kind": x.Kind(), "cfg": x.Cfg(), "op": c.Op, "a": c.A(), "rs": 1, "pre": 0, "post": 0, "r": []any{},
		"panic": false, "pmsg": "", "out": 0, "cmps": 0, "timeout": false, "mut": x.Mutates(c.Op), "obsbad": true,
		"fp": []string{"", "", ""}}
}

// guard runs harness code that calls into the library outside a logged call (building a state, enumerating
// states) under the watchdog and recover(): a hang there ends the process with a timeout event naming `op`
func guard(fam, kind, op string, f func()) callInfo {
	return invoke(Ev{"fam": fam, "kind": kind, "cfg": Ev{}, "op": op, "a": Call{}.A(), "rs": 1, "pre": 0, "post": 0, "r": []any{},
		"panic": false, "pmsg": "", "out": 0, "cmps": 0, "timeout": false, "mut": false, "obsbad": true, "fp": []string{"", "", ""}}, f)
}

func replay(u Universe, path []Call) Inst {
	x := u.New()
	for _, c := range path {
		c := c
		invoke(skeleton(x, c), func() { x.Do(c) }) // under the watchdog: a replayed call may hang in a changed implementation
	}
	return x
}

// the text of a load call: S = "bad" turns the well-formed text into one that fails HALF WAY (a last element / member of
// the wrong type), so that the tours also explore what a failed load leaves behind and what follows it
func loadText(c Call, good []byte) []byte {
	if c.S != "bad" || len(good) < 2 {
		return good
	}
	body, closer := good[:len(good)-1], good[len(good)-1]
	sep := ","
	if len(body) == 1 {
		sep = ""
	}
	if closer == '}' {
		return []byte(string(body) + sep + `"zz":"oops"}`)
	}
	return []byte(string(body) + sep + `"oops"]`)
}

func noteDistinct(kind string, c Call) {
	// distinct (kind, op, argument class) combinations executed; argument class = exact small args
	distinct[kind+"|"+c.key()] = struct{}{}
}

// RandomUniverse produces random calls for long histories.
type RandomUniverse interface {
	New() Inst
	Rand(x Inst, r *rand.Rand) Call
}

func randomRun(u RandomUniverse, r *rand.Rand, traces, steps int) {
	for t := 0; t < traces; t++ {
		x := u.New()
		pre, _ := safeObserve(x)
		rs := true
		for s := 0; s < steps; s++ {
			c := u.Rand(x, r)
			var post Ev
			if rs {
				post = step(x, c, 1, pre, nil)
				rs = false
			} else {
				post = step(x, c, 0, nil, nil)
			}
			if _, bad := post["obspanic"]; bad || lastPanicked {
				// a call that did not complete may leave anything behind: start a new segment
				x = u.New()
				pre, _ = safeObserve(x)
				rs = true
			}
			noteDistinct(x.Kind(), Call{Op: c.Op, I: sign3(c.I), Cmp: c.Cmp})
		}
	}
}

func sign3(i int) int {
	switch {
	case i < 0:
		return -1
	case i > 0:
		return 1
	}
	return 0
}

// ---------------------------------------------------------------------------------------------
// C15: Clear() leaves a container that behaves from then on exactly like a freshly constructed one.
// For every reachable state: Clear, then the same continuation on the cleared instance and on a
// fresh instance; one event carries both observation sequences (TLC requires them to be equal).

func clearContinuations(j *jobCtx, u Universe, maxStates, contLen, conts int) {
	x0 := u.New()
	paths := enumStates(u, maxStates, isMut(x0))
	for _, p := range paths {
		if budgetExceeded() {
			extraStats["tour_truncated"] = true
			return
		}
		j.states++
		for c := 0; c < conts; c++ {
			x := replay(u, p)
			f := u.New()
			e := Ev{"fam": "clr", "kind": x.Kind(), "cfg": x.Cfg(), "op": "ClearThen", "rs": 1, "timeout": false, "obsbad": false,
				"plen": len(p)}
			steps := []Ev{}
			ci := invoke(e, func() {
				x.Do(Call{Op: "Clear"})
				oc, _ := safeObserve(x)
				of, _ := safeObserve(f)
				steps = append(steps, Ev{"op": "Clear", "a": Call{}.A(), "rc": []any{}, "rf": []any{}, "oc": normObs(x, oc), "of": normObs(f, of)})
				for s := 0; s < contLen; s++ {
					calls := u.Calls(f)
					if len(calls) == 0 {
						break
					}
					call := calls[j.r.Intn(len(calls))]
					if !f.Mutates(call.Op) && j.r.Intn(4) != 0 {
						call = calls[j.r.Intn(len(calls))]
					}
					rc := normRet(x, call.Op, x.Do(call))
					rf := normRet(f, call.Op, f.Do(call))
					oc, _ := safeObserve(x)
					of, _ := safeObserve(f)
					steps = append(steps, Ev{"op": call.Op, "a": call.A(), "rc": rc, "rf": rf, "oc": normObs(x, oc), "of": normObs(f, of)})
				}
			})
			e["panic"], e["pmsg"], e["out"] = ci.Panic, ci.PMsg, ci.Out
			e["steps"] = steps
			emit(e)
			j.edges++
			distinct["clr|"+x.Kind()+"|"+itoa(len(p))] = struct{}{}
		}
	}
}

// results of Keys()/Values() of hash kinds come in an unspecified order
func normRet(x Inst, op string, r []any) []any {
	if r == nil {
		return []any{}
	}
	if jsonDisc(x.Kind()) == "unordered" && (op == "Keys" || op == "Values") && len(r) == 1 {
		if xs, ok := r[0].([]int); ok {
			return []any{sortedInts(xs)}
		}
	}
	return r
}

func init() {
	jobs["clr"] = jobClear
	kindsOf["clr"] = jsonKinds
}

// float elements with NaN in the hash containers: Clear must still leave an empty container
func clearFloats(j *jobCtx) {
	type fc struct {
		kind string
		mk   func() (add func(float64), clear func(), obs func() Ev)
	}
	cases := []fc{
		// sets: also what the set algebra makes of the cleared set (it may walk the table rather than the ordering) - sizes of
		// s u {}, {} u s, s \ {}, {} \ s, s n s, s u s, s u {7}, {7} \ s
		{"hashset", func() (func(float64), func(), func() Ev) {
			s := hashset.New[float64]()
			return func(f float64) { s.Add(f) }, s.Clear, func() Ev {
				e, o := hashset.New[float64](), hashset.New[float64](7)
				return Ev{"size": s.Size(), "empty": s.Empty(), "n": len(s.Values()), "alg": []int{s.Union(e).Size(), e.Union(s).Size(), s.Difference(e).Size(),
					e.Difference(s).Size(), s.Intersection(s).Size(), s.Union(s).Size(), s.Union(o).Size(), o.Difference(s).Size()}}
			}
		}},
		{"linkedhashset", func() (func(float64), func(), func() Ev) {
			s := linkedhashset.New[float64]()
			return func(f float64) { s.Add(f) }, s.Clear, func() Ev {
				e, o := linkedhashset.New[float64](), linkedhashset.New[float64](7)
				return Ev{"size": s.Size(), "empty": s.Empty(), "n": len(s.Values()), "alg": []int{s.Union(e).Size(), e.Union(s).Size(), s.Difference(e).Size(),
					e.Difference(s).Size(), s.Intersection(s).Size(), s.Union(s).Size(), s.Union(o).Size(), o.Difference(s).Size()}}
			}
		}},
		{"treeset", func() (func(float64), func(), func() Ev) {
			s := treeset.New[float64]()
			return func(f float64) { s.Add(f) }, s.Clear, func() Ev {
				e, o := treeset.New[float64](), treeset.New[float64](7)
				return Ev{"size": s.Size(), "empty": s.Empty(), "n": len(s.Values()), "alg": []int{s.Union(e).Size(), e.Union(s).Size(), s.Difference(e).Size(),
					e.Difference(s).Size(), s.Intersection(s).Size(), s.Union(s).Size(), s.Union(o).Size(), o.Difference(s).Size()}}
			}
		}},
		{"hashmap", func() (func(float64), func(), func() Ev) {
			m := hashmap.New[float64, int]()
			return func(f float64) { m.Put(f, 1) }, m.Clear, func() Ev { return Ev{"size": m.Size(), "empty": m.Empty(), "n": len(m.Keys())} }
		}},
		{"linkedhashmap", func() (func(float64), func(), func() Ev) {
			m := linkedhashmap.New[float64, int]()
			return func(f float64) { m.Put(f, 1) }, m.Clear, func() Ev { return Ev{"size": m.Size(), "empty": m.Empty(), "n": len(m.Keys())} }
		}},
		{"hashbidimap", func() (func(float64), func(), func() Ev) {
			m := hashbidimap.New[float64, float64]()
			return func(f float64) { m.Put(f, f) }, m.Clear, func() Ev { return Ev{"size": m.Size(), "empty": m.Empty(), "n": len(m.Keys())} }
		}},
	}
	for _, c := range cases {
		if !j.want(c.kind) {
			continue
		}
		for _, prior := range [][]float64{{math.NaN()}, {1.5, math.NaN(), math.NaN()}, {2.5}} {
			addC, clearC, obsC := c.mk()
			addF, _, obsF := c.mk()
			for _, f := range prior {
				addC(f)
			}
			e := Ev{"fam": "clr", "kind": c.kind, "cfg": Ev{"floats": true}, "op": "ClearThen", "rs": 1, "timeout": false, "obsbad": false, "plen": len(prior)}
			steps := []Ev{}
			ci := invoke(e, func() {
				clearC()
				steps = append(steps, Ev{"op": "Clear", "a": Call{}.A(), "rc": []any{}, "rf": []any{}, "oc": obsC(), "of": obsF()})
				for _, f := range []float64{0.5, math.NaN(), 0.5} {
					addC(f)
					addF(f)
					steps = append(steps, Ev{"op": "Add", "a": Call{}.A(), "rc": []any{}, "rf": []any{}, "oc": obsC(), "of": obsF()})
				}
			})
			e["panic"], e["pmsg"], e["out"], e["steps"] = ci.Panic, ci.PMsg, ci.Out, steps
			emit(e)
			distinct["clrf|"+c.kind+"|"+itoa(len(prior))] = struct{}{}
		}
	}
}

func jobClear(j *jobCtx) {
	clearFloats(j)
	n, cl, cs := 60, 6, 2
	if !j.quick() {
		n, cl, cs = 600, 8, 4
	}
	for _, u := range jsonUniverses(j) {
		clearContinuations(j, u, n, cl, cs)
	}
}

// the two documented constructor preconditions (C17): these constructors MUST panic
func newBad(fam, kind string, cfg Ev, arg int, f func()) {
	e := Ev{"fam": fam, "kind": kind, "cfg": cfg, "op": "NewBad", "a": Call{I: arg}.A(), "rs": 1, "pre": 0, "post": 0, "r": []any{},
		"timeout": false, "mut": false, "obsbad": true, "fp": []string{"", "", ""}}
	ci := invoke(e, f)
	e["panic"], e["pmsg"], e["out"], e["cmps"] = ci.Panic, ci.PMsg, ci.Out, ci.Cmps
	emit(e)
	distinct[kind+"|NewBad|"+itoa(arg)] = struct{}{}
}
