package main

// Family RD: concurrent readers (C18).  Built with -race.  For every kind, several reachable
// states and EVERY PAIR of read-only operations: two goroutines are released together by a
// barrier, each repeats its operation a few times; results are compared (by TLC) with the
// sequential answers, the state fingerprint before / after, and the number of data races the Go
// race detector reported during the pair (read from its log file) is a logged field.

import (
	"bytes"
	"fmt"
	"os"
	"reflect"
	"sort"
	"sync"

	"github.com/emirpasic/gods/v2/containers"
	"github.com/emirpasic/gods/v2/maps"
	"github.com/emirpasic/gods/v2/maps/treemap"
	"github.com/emirpasic/gods/v2/sets/hashset"
	"github.com/emirpasic/gods/v2/sets/linkedhashset"
	"github.com/emirpasic/gods/v2/sets/treeset"
	"github.com/emirpasic/gods/v2/trees/avltree"
	"github.com/emirpasic/gods/v2/trees/btree"
	rbt "github.com/emirpasic/gods/v2/trees/redblacktree"
)

func init() {
	jobs["rd"] = jobReaders
	kindsOf["rd"] = jsonKinds
}

type readOp struct {
	name string
	f    func() any
}

func sortedInts(xs []int) []int {
	ys := append([]int{}, xs...)
	sort.Ints(ys)
	return ys
}

// the read-only operations of an instance (results normalised where the order is unspecified)
func readOps(x Inst) []readOp {
	unordered := jsonDisc(x.Kind()) == "unordered"
	norm := func(xs []int) []int {
		if unordered {
			return sortedInts(xs)
		}
		return ints(xs)
	}
	var ops []readOp
	add := func(name string, f func() any) { ops = append(ops, readOp{name, f}) }
	// the whole public observation: Get / IndexOf / Contains / Peek / navigation / iteration / Each ...
	add("Observe", func() any { return normObs(x, x.Observe()) })
	if j, ok := x.Target().(jsonable); ok && !unordered {
		add("ToJSON", func() any { b, err := j.ToJSON(); return fmt.Sprint(string(b), err) })
	}
	switch t := x.(type) {
	case *seqInst:
		l := t.l
		add("Size", func() any { return l.Size() })
		add("Empty", func() any { return l.Empty() })
		add("Values", func() any { return ints(l.Values()) })
		add("String", func() any { return l.String() })
		add("Get", func() any { v, ok := l.Get(l.Size() - 1); w, ok2 := l.Get(l.Size() / 2); return []any{v, ok, w, ok2} })
		add("IndexOf", func() any { return l.IndexOf(2) })
		add("Contains", func() any { return l.Contains(1, 2) })
		add("Iterate", func() any { return iterSeq(x) })
		add("GetSortedValues", func() any { return containers.GetSortedValues[int](l) })
		add("Enumerable", func() any { return enumAll(x) })
	case *queInst:
		q := t.q
		add("Size", func() any { return q.Size() })
		add("Empty", func() any { return q.Empty() })
		add("Values", func() any { return ints(q.Values()) })
		add("String", func() any { return q.String() })
		add("Peek", func() any { v, ok := q.Peek(); return []any{v, ok} })
		add("Iterate", func() any { return iterSeq(x) })
		add("GetSortedValues", func() any { return containers.GetSortedValues[int](q) })
	case *heapInst:
		add("Peek", func() any { return t.Do(Call{Op: "Peek"}) })
		add("Values", func() any { return t.Do(Call{Op: "Values"}) })
		add("Size", func() any { return t.Do(Call{Op: "Size"}) })
		add("String", func() any { return t.Do(Call{Op: "String"}) })
		add("Iterate", func() any { return iterSeq(x) })
	case *setInst:
		s := t.s
		add("Size", func() any { return s.Size() })
		add("Empty", func() any { return s.Empty() })
		add("Values", func() any { return norm(s.Values()) })
		add("String", func() any { return len(s.String()) })
		add("Contains", func() any { return []bool{s.Contains(1), s.Contains(1, 2), s.Contains()} })
		add("GetSortedValues", func() any { return containers.GetSortedValues[int](s) })
		switch ss := s.(type) {
		case *hashset.Set[int]:
			add("Algebra", func() any {
				return [][]int{sortedInts(ss.Union(ss).Values()), sortedInts(ss.Intersection(ss).Values()), sortedInts(ss.Difference(ss).Values())}
			})
		case *treeset.Set[int]:
			add("Algebra", func() any {
				return [][]int{ss.Union(ss).Values(), ss.Intersection(ss).Values(), ss.Difference(ss).Values()}
			})
			add("Iterate", func() any { return iterSeq(x) })
			add("Enumerable", func() any { return enumAll(x) })
		case *linkedhashset.Set[int]:
			add("Algebra", func() any {
				return [][]int{sortedInts(ss.Union(ss).Values()), sortedInts(ss.Intersection(ss).Values()), sortedInts(ss.Difference(ss).Values())}
			})
			add("Iterate", func() any { return iterSeq(x) })
			add("Enumerable", func() any { return enumAll(x) })
		}
	case *mapInst:
		m := t.c
		add("Size", func() any { return m.Size() })
		add("Empty", func() any { return m.Empty() })
		add("Keys", func() any { return norm(m.Keys()) })
		add("Values", func() any { return norm(vints(m.Values())) })
		add("String", func() any { return len(m.String()) })
		add("Get", func() any { v, ok := m.Get(2); w, ok2 := m.Get(99); return []any{v, ok, w, ok2} })
		if b, ok := m.(maps.BidiMap[int, V]); ok {
			add("GetKey", func() any { k, ok := b.GetKey(2); return []any{k, ok} })
		}
		add("GetSortedValues", func() any { return containers.GetSortedValues[V](m) })
		switch tt := m.(type) {
		case *rbt.Tree[int, V]:
			add("Nav", func() any {
				f, fo := tt.Floor(2)
				c, co := tt.Ceiling(2)
				return []any{nodeKey(tt.Left()), nodeKey(tt.Right()), nodeKey(f), fo, nodeKey(c), co}
			})
		case *avltree.Tree[int, V]:
			add("Nav", func() any {
				f, fo := tt.Floor(2)
				c, co := tt.Ceiling(2)
				return []any{anodeKey(tt.Left()), anodeKey(tt.Right()), anodeKey(f), fo, anodeKey(c), co}
			})
		case *btree.Tree[int, V]:
			add("Nav", func() any { return []any{tt.LeftKey(), tt.RightKey(), tt.LeftValue(), tt.RightValue(), tt.Height()} })
		case *treemap.Map[int, V]:
			add("Nav", func() any {
				a, b, c := tt.Min()
				d, e, f := tt.Max()
				g, h, i := tt.Floor(2)
				j, k, l := tt.Ceiling(2)
				return []any{a, b, c, d, e, f, g, h, i, j, k, l}
			})
		}
		if jsonDisc(x.Kind()) != "unordered" {
			add("Iterate", func() any { return iterSeq(x) })
		}
		switch x.Kind() {
		case "treemap", "linkedhashmap", "treebidimap":
			add("Enumerable", func() any { return enumAll(x) })
		}
	}
	return ops
}

func nodeKey(n *rbt.Node[int, V]) int {
	if n == nil {
		return -1
	}
	return n.Key
}
func anodeKey(n *avltree.Node[int, V]) int {
	if n == nil {
		return -1
	}
	return n.Key
}

// Each / Any / All / Find / Select / Map in one read-only operation
func enumAll(x Inst) any {
	type ie interface {
		Each(func(int, int))
		Any(func(int, int) bool) bool
		All(func(int, int) bool) bool
		Find(func(int, int) bool) (int, int)
	}
	type ke interface {
		Each(func(int, V))
		Any(func(int, V) bool) bool
		All(func(int, V) bool) bool
		Find(func(int, V) bool) (int, V)
	}
	out := []any{}
	p := func(a, b int) bool { return (a+b)%2 == 0 }
	switch t := x.Target().(type) {
	case ie:
		t.Each(func(i, v int) { out = append(out, i, v) })
		a, b := t.Find(p)
		out = append(out, t.Any(p), t.All(p), a, b)
	case ke:
		t.Each(func(k int, v V) { out = append(out, k, int(v)) })
		q := func(k int, v V) bool { return p(k, int(v)) }
		a, b := t.Find(q)
		out = append(out, t.Any(q), t.All(q), a, int(b))
	}
	// Select and Map are called by name (their result types differ per container)
	out = append(out, selectMapByName(x))
	return out
}

func selectMapByName(x Inst) any {
	t := reflect.ValueOf(x.Target())
	sel, mp := t.MethodByName("Select"), t.MethodByName("Map")
	if !sel.IsValid() || !mp.IsValid() {
		return nil
	}
	var selF, mapF any
	method := "Values"
	if isKV(x) {
		selF = func(k int, v V) bool { return k%2 == 0 }
		mapF = func(k int, v V) (int, V) { return k / 2, v }
		method = "Keys"
	} else {
		selF = func(i, v int) bool { return v%2 == 0 }
		mapF = func(i, v int) int { return v / 2 }
	}
	r1 := sel.Call([]reflect.Value{reflect.ValueOf(selF)})[0]
	r2 := mp.Call([]reflect.Value{reflect.ValueOf(mapF)})[0]
	return []any{r1.MethodByName(method).Call(nil)[0].Interface(), r2.MethodByName(method).Call(nil)[0].Interface()}
}

type readersRun struct {
	logPath string
	off     int64
}

func (rr *readersRun) newRaces() int {
	if rr.logPath == "" {
		return 0
	}
	b, err := os.ReadFile(rr.logPath)
	if err != nil {
		return 0
	}
	if int64(len(b)) <= rr.off {
		return 0
	}
	n := bytes.Count(b[rr.off:], []byte("WARNING: DATA RACE"))
	rr.off = int64(len(b))
	return n
}

func jobReaders(j *jobCtx) {
	rr := &readersRun{}
	if p := os.Getenv("VERIF_RACELOG"); p != "" {
		rr.logPath = fmt.Sprintf("%s.%d", p, os.Getpid())
	}
	extraStats["race_detector"] = raceEnabled
	reps := 3
	for _, u := range jsonUniverses(j) {
		x0 := u.New()
		paths := enumStates(u, 60, isMut(x0))
		// a few states: empty, small, the largest ones
		var pick [][]Call
		for i, p := range paths {
			if i == 0 || i == 1 || i == len(paths)/2 || i == len(paths)-1 {
				pick = append(pick, p)
			}
		}
		if !j.quick() {
			for i, p := range paths {
				if i%5 == 2 {
					pick = append(pick, p)
				}
			}
		}
		if bp := bigStatePath(x0); bp != nil {
			pick = append(pick, bp) // a large state: position caches, lazily grown tables only show there
		}
		for _, p := range pick {
			if budgetExceeded() {
				extraStats["tour_truncated"] = true
				return
			}
			x := replay(u, p)
			j.states++
			ops := readOps(x)
			// The concurrent runs come FIRST and the sequential answers are taken afterwards (read-only operations:
			// the answers are the same before and after): state that is built lazily on first use - inside the
			// container or in package-level tables - is then first touched by two goroutines at once.
			type pairRes struct {
				a, b       int
				res        [][]string
				pan        bool
				pmsg       string
				out, races int
				pure       bool
			}
			var done []pairRes
			for a := 0; a < len(ops); a++ {
				for b := a; b < len(ops); b++ {
					e := Ev{"fam": "rd", "kind": x.Kind(), "op": "Pair", "a": ops[a].name, "b": ops[b].name}
					fp0 := fullFP(x)
					rr.newRaces()
					res := make([][]string, 2)
					var pan [2]bool
					ci := invoke(skeletonRd(x, ops[a].name, ops[b].name), func() {
						var wg sync.WaitGroup
						start := make(chan struct{})
						for g, oi := range []int{a, b} {
							wg.Add(1)
							go func(g, oi int) {
								defer wg.Done()
								defer func() {
									if recover() != nil {
										pan[g] = true
									}
								}()
								<-start
								for r := 0; r < reps; r++ {
									res[g] = append(res[g], fmt.Sprint(ops[oi].f()))
								}
							}(g, oi)
						}
						close(start)
						wg.Wait()
					})
					_ = e
					done = append(done, pairRes{a, b, res, ci.Panic || pan[0] || pan[1], ci.PMsg, ci.Out, rr.newRaces(), fp0 == fullFP(x)})
				}
			}
			// sequential answers
			seq := make([]string, len(ops))
			for i, o := range ops {
				seq[i] = fmt.Sprint(o.f())
			}
			same := func(rs []string, want string) bool {
				for _, r := range rs {
					if r != want {
						return false
					}
				}
				return len(rs) == reps
			}
			for _, d := range done {
				e := skeletonRd(x, ops[d.a].name, ops[d.b].name)
				e["sa"], e["sb"], e["readers"], e["reps"] = seq[d.a], seq[d.b], 2, reps
				e["panic"], e["pmsg"], e["out"] = d.pan, d.pmsg, d.out
				e["ra_ok"], e["rb_ok"] = same(d.res[0], seq[d.a]), same(d.res[1], seq[d.b])
				e["ra"], e["rb"] = first(d.res[0]), first(d.res[1])
				e["races"], e["pure"] = d.races, d.pure
				emit(e)
				distinct["rd|"+x.Kind()+"|"+ops[d.a].name+"|"+ops[d.b].name] = struct{}{}
			}
		}
	}
}

func skeletonRd(x Inst, a, b string) Ev {
	return Ev{"fam": "rd", "kind": x.Kind(), "cfg": jsonCfg(x), "op": "Pair", "rs": 1, "timeout": false, "obsbad": false,
		"a": a, "b": b, "sa": "", "sb": "", "ra": "", "rb": "", "ra_ok": false, "rb_ok": false, "races": 0, "pure": false,
		"panic": false, "pmsg": "", "out": 0, "readers": 2, "reps": 0}
}

func first(xs []string) string {
	if len(xs) == 0 {
		return ""
	}
	return xs[0]
}
