package main

// Family RD: concurrent readers (C18).  Built with -race.  For every kind, several reachable
// states and EVERY PAIR of read-only operations: two goroutines are released together by a
// barrier, each repeats its operation a few times; results are compared (by TLC) with the
// sequential answers, the state fingerprint before / after, and the number of data races the Go
// race detector reported during the pair (read from its log file) is a logged field.

import (
	"bytes"
	"fmt"
	"os"
	"reflect"
	"sort"
	"sync"

	"github.com/emirpasic/gods/v2/containers"
	"github.com/emirpasic/gods/v2/maps"
	"github.com/emirpasic/gods/v2/maps/treemap"
	"github.com/emirpasic/gods/v2/sets/hashset"
	"github.com/emirpasic/gods/v2/sets/linkedhashset"
	"github.com/emirpasic/gods/v2/sets/treeset"
	"github.com/emirpasic/gods/v2/trees/avltree"
	"github.com/emirpasic/gods/v2/trees/btree"
	rbt "github.com/emirpasic/gods/v2/trees/redblacktree"
)

func init() {
	jobs["rd"] = jobReaders
	kindsOf["rd"] = jsonKinds
}

type readOp struct {
	name string
	f    func() any
}

func sortedInts(xs []int) []int {
	ys := append([]int{}, xs...)
	sort.Ints(ys)
	return ys
}

// the read-only operations of an instance (results normalised where the order is unspecified)
func readOps(x Inst) []readOp {
	unordered := jsonDisc(x.Kind()) == "unordered"
	norm := func(xs []int) []int {
		if unordered {
			return sortedInts(xs)
		}
		return ints(xs)
	}
	var ops []readOp
	add := func(name string, f func() any) { ops = append(ops, readOp{name, f}) }
	// the whole public observation: Get / IndexOf / Contains / Peek / navigation / iteration / Each ...
	add("Observe", func() any { return normObs(x, x.Observe()) })
	if j, ok := x.Target().(jsonable); ok && !unordered {
		add("ToJSON", func() any { b, err := j.ToJSON(); return fmt.Sprint(string(b), err) })
	}
	switch t := x.(type) {
	case *seqInst:
		l := t.l
		add("Size", func() any { return l.Size() })
		add("Empty", func() any { return l.Empty() })
		add("Values", func() any { return ints(l.Values()) })
		add("String", func() any { return l.String() })
		add("Get", func() any { v, ok := l.Get(l.Size() - 1); w, ok2 := l.Get(l.Size() / 2); return []any{v, ok, w, ok2} })
		add("IndexOf", func() any { return l.IndexOf(2) })
		add("Contains", func() any { return l.Contains(1, 2) })
		add("Iterate", func() any { return iterSeq(x) })
		add("GetSortedValues", func() any { return containers.GetSortedValues[int](l) })
		add("Enumerable", func() any { return enumAll(x) })
	case *queInst:
		q := t.q
		add("Size", func() any { return q.Size() })
		add("Empty", func() any { return q.Empty() })
		add("Values", func() any { return ints(q.Values()) })
		add("String", func() any { return q.String() })
		add("Peek", func() any { v, ok := q.Peek(); return []any{v, ok} })
		add("Iterate", func() any { return iterSeq(x) })
		add("GetSortedValues", func() any { return containers.GetSortedValues[int](q) })
	case *heapInst:
		add("Peek", func() any { return t.Do(Call{Op: "Peek"}) })
		add("Values", func() any { return t.Do(Call{Op: "Values"}) })
		add("Size", func() any { return t.Do(Call{Op: "Size"}) })
		add("String", func() any { return t.Do(Call{Op: "String"}) })
		add("Iterate", func() any { return iterSeq(x) })
	case *setInst:
		s := t.s
		add("Size", func() any { return s.Size() })
		add("Empty", func() any { return s.Empty() })
		add("Values", func() any { return norm(s.Values()) })
		add("String", func() any { return len(s.String()) })
		add("Contains", func() any { return []bool{s.Contains(1), s.Contains(1, 2), s.Contains()} })
		add("GetSortedValues", func() any { return containers.GetSortedValues[int](s) })
		switch ss := s.(type) {
		case *hashset.Set[int]:
			add("Algebra", func() any {
				return [][]int{sortedInts(ss.Union(ss).Values()), sortedInts(ss.Intersection(ss).Values()), sortedInts(ss.Difference(ss).Values())}
			})
		case *treeset.Set[int]:
			add("Algebra", func() any {
				return [][]int{ss.Union(ss).Values(), ss.Intersection(ss).Values(), ss.Difference(ss).Values()}
			})
			add("Iterate", func() any { return iterSeq(x) })
			add("Enumerable", func() any { return enumAll(x) })
		case *linkedhashset.Set[int]:
			add("Algebra", func() any {
				return [][]int{sortedInts(ss.Union(ss).Values()), sortedInts(ss.Intersection(ss).Values()), sortedInts(ss.Difference(ss).Values())}
			})
			add("Iterate", func() any { return iterSeq(x) })
			add("Enumerable", func() any { return enumAll(x) })
		}
	case *mapInst:
		m := t.c
		add("Size", func() any { return m.Size() })
		add("Empty", func() any { return m.Empty() })
		add("Keys", func() any { return norm(m.Keys()) })
		add("Values", func() any { return norm(vints(m.Values())) })
		add("String", func() any { return len(m.String()) })
		add("Get", func() any { v, ok := m.Get(2); w, ok2 := m.Get(99); return []any{v, ok, w, ok2} })
		if b, ok := m.(maps.BidiMap[int, V]); ok {
			add("GetKey", func() any { k, ok := b.GetKey(2); return []any{k, ok} })
		}
		add("GetSortedValues", func() any { return containers.GetSortedValues[V](m) })
		switch tt := m.(type) {
		case *rbt.Tree[int, V]:
			add("Nav", func() any {
				f, fo := tt.Floor(2)
				c, co := tt.Ceiling(2)
				return []any{nodeKey(tt.Left()), nodeKey(tt.Right()), nodeKey(f), fo, nodeKey(c), co}
			})
		case *avltree.Tree[int, V]:
			add("Nav", func() any {
				f, fo := tt.Floor(2)
				c, co := tt.Ceiling(2)
				return []any{anodeKey(tt.Left()), anodeKey(tt.Right()), anodeKey(f), fo, anodeKey(c), co}
			})
		case *btree.Tree[int, V]:
			add("Nav", func() any { return []any{tt.LeftKey(), tt.RightKey(), tt.LeftValue(), tt.RightValue(), tt.Height()} })
		case *treemap.Map[int, V]:
			add("Nav", func() any {
				a, b, c := tt.Min()
				d, e, f := tt.Max()
				g, h, i := tt.Floor(2)
				j, k, l := tt.Ceiling(2)
				return []any{a, b, c, d, e, f, g, h, i, j, k, l}
			})
		}
		if jsonDisc(x.Kind()) != "unordered" {
			add("Iterate", func() any { return iterSeq(x) })
		}
		switch x.Kind() {
		case "treemap", "linkedhashmap", "treebidimap":
			add("Enumerable", func() any { return enumAll(x) })
		}
	}
	return ops
}

func nodeKey(n *rbt.Node[int, V]) int {
	if n == nil {
		return -1
	}
	return n.Key
}
func anodeKey(n *avltree.Node[int, V]) int {
	if n == nil {
		return -1
	}
	return n.Key
}

// Each / Any / All / Find / Select / Map in one read-only operation
func enumAll(x Inst) any {
	type ie interface {
		Each(func(int, int))
		Any(func(int, int) bool) bool
		All(func(int, int) bool) bool
		Find(func(int, int) bool) (int, int)
	}
	type ke interface {
		Each(func(int, V))
		Any(func(int, V) bool) bool
		All(func(int, V) bool) bool
		Find(func(int, V) bool) (int, V)
	}
	out := []any{}
	p := func(a, b int) bool { return (a+b)%2 == 0 }
	switch t := x.Target().(type) {
	case ie:
		t.Each(func(i, v int) { out = append(out, i, v) })
		a, b := t.Find(p)
		out = append(out, t.Any(p), t.All(p), a, b)
	case ke:
		t.Each(func(k int, v V) { out = append(out, k, int(v)) })
		q := func(k int, v V) bool { return p(k, int(v)) }
		a, b := t.Find(q)
		out = append(out, t.Any(q), t.All(q), a, int(b))
	}
	// Select and Map are called by name (their result types differ per container)
	out = append(out, selectMapByName(x))
	return out
}

func selectMapByName(x Inst) any {
	t := reflect.ValueOf(x.Target())
	sel, mp := t.MethodByName("Select"), t.MethodByName("Map")
	if !sel.IsValid() || !mp.IsValid() {
		return nil
	}
	var selF, mapF any
	method := "Values"
	if isKV(x) {
		selF = func(k int, v V) bool { return k%2 == 0 }
		mapF = func(k int, v V) (int, V) { return k / 2, v }
		method = "Keys"
	} else {
		selF = func(i, v int) bool { return v%2 == 0 }
		mapF = func(i, v int) int { return v / 2 }
	}
	r1 := sel.Call([]reflect.Value{reflect.ValueOf(selF)})[0]
	r2 := mp.Call([]reflect.Value{reflect.ValueOf(mapF)})[0]
	return []any{r1.MethodByName(method).Call(nil)[0].Interface(), r2.MethodByName(method).Call(nil)[0].Interface()}
}

type readersRun struct {
	logPath string
	off     int64
}

func (rr *readersRun) newRaces() int {
	if rr.logPath == "" {
		return 0
	}
	b, err := os.ReadFile(rr.logPath)
	if err != nil {
		return 0
	}
	if int64(len(b)) <= rr.off {
		return 0
	}
	n := bytes.Count(b[rr.off:], []byte("WARNING: DATA RACE"))
	rr.off = int64(len(b))
	return n
}

func jobReaders(j *jobCtx) {
	rr := &readersRun{}
	if p := os.Getenv("VERIF_RACELOG"); p != "" {
		rr.logPath = fmt.Sprintf("%s.%d", p, os.Getpid())
	}
	extraStats["race_detector"] = raceEnabled
	reps := 3
	hugeDone := map[string]bool{}
	deepTreeReaders(j, rr)
	for _, u := range jsonUniverses(j) {
		x0 := u.New()
		paths := enumStates(u, 60, isMut(x0))
		// a few states: empty, small, the largest ones
		var pick [][]Call
		for i, p := range paths {
			if i == 0 || i == 1 || i == len(paths)/2 || i == len(paths)-1 {
				pick = append(pick, p)
			}
		}
		if !j.quick() {
			for i, p := range paths {
				if i%5 == 2 {
					pick = append(pick, p)
				}
			}
		}
		if bp := bigStatePath(x0); bp != nil {
			pick = append(pick, bp) // a large state: position caches, lazily grown tables only show there
		}
		// first (fixed cost) a state of thousands of elements, two goroutines per operation
		if hp := hugeStatePath(x0); hp != nil && !hugeDone[x0.Kind()] {
			hugeDone[x0.Kind()] = true
			var x Inst
			gi := guard("rd", x0.Kind(), "Build", func() { x = replay(u, hp) })
			if !gi.Panic && x != nil {
				j.states++
				readersState(j, rr, x, hugeReadOps(x), 2, 2)
			}
		}
		for _, p := range pick {
			if budgetExceeded() {
				extraStats["tour_truncated"] = true
				return
			}
			x := replay(u, p)
			j.states++
			readersState(j, rr, x, readOps(x), reps, 1)
		}
	}
}

// hugeStatePath builds a state of thousands of elements with few calls (bulk operations where the kind has them)
func hugeStatePath(x0 Inst) []Call {
	var cs []Call
	n := 3000
	switch t := x0.(type) {
	case *seqInst:
		vs := make([]int, n)
		for i := range vs {
			vs[i] = (i * 7) % 1500
		}
		cs = append(cs, Call{Op: "Add", Vs: vs})
	case *setInst:
		cs = append(cs, Call{Op: "Add", Vs: rangeInts(n, 0)})
	case *queInst:
		if t.kind == "circularbuffer" {
			return nil // its universes have capacities of a few elements
		}
		put := "Enqueue"
		if queDisc(t.kind) == "lifo" {
			put = "Push"
		}
		for i := 0; i < n; i++ {
			cs = append(cs, Call{Op: put, V: i % 997})
		}
	case *heapInst:
		if t.h != nil {
			vs := make([]int, 600) // Values() of a heap costs its size times the size of a level
			for i := range vs {
				vs[i] = 10*((i*37)%211) + i%10
			}
			cs = append(cs, Call{Op: "Push", Vs: vs})
		} else {
			for i := 0; i < 600; i++ {
				cs = append(cs, Call{Op: "Enqueue", Vs: []int{10*((i*37)%211) + i%10}})
			}
		}
	case *mapInst:
		if mapBidi(t.kind) {
			return nil // the bidi universes are 3 x 3 (values outside would not be probed)
		}
		for i := 0; i < n; i++ {
			cs = append(cs, Call{Op: "Put", I: (i * 13) % n, V: 100 + i%50})
		}
	}
	return cs
}

func isTreeKind(kind string) bool {
	return kind == "redblacktree" || kind == "avltree" || kind == "btree"
}

// read-only operations with small results for huge states: long argument lists (members with repeats: arguments times
// elements is in the hundreds of thousands), lookups at both ends, whole-container walks reduced to a length or a sum
func hugeReadOps(x Inst) []readOp {
	var ops []readOp
	add := func(name string, f func() any) { ops = append(ops, readOp{name, f}) }
	sum := func(xs []int) int {
		t := 0
		for i, v := range xs {
			t += (i%7 + 1) * v
		}
		return t
	}
	args := doubled(rangeInts(0, 150), true) // 300 arguments, all present in every huge state, each twice
	switch t := x.(type) {
	case *seqInst:
		l := t.l
		add("Contains", func() any { return []bool{l.Contains(args...), l.Contains(append(args[:100:100], 99999)...)} })
		add("IndexOf", func() any { return []int{l.IndexOf(1499), l.IndexOf(99999)} })
		add("Get", func() any { v, ok := l.Get(l.Size() - 1); return []any{v, ok} })
		add("Values", func() any { return sum(l.Values()) })
		add("String", func() any { return len(l.String()) })
		add("Iterate", func() any { return len(iterSeq(x)) })
		add("Enumerable", func() any { return len(fmt.Sprint(enumAll(x))) })
	case *setInst:
		s := t.s
		add("Contains", func() any { return []bool{s.Contains(args...), s.Contains(append(args[:100:100], 99999)...)} })
		add("Values", func() any { return sum(sortedInts(s.Values())) })
		add("String", func() any { return len(s.String()) })
		add("Size", func() any { return s.Size() })
		switch ss := s.(type) {
		case *hashset.Set[int]:
			add("Algebra", func() any { return []int{ss.Union(ss).Size(), ss.Intersection(ss).Size(), ss.Difference(ss).Size()} })
		case *treeset.Set[int]:
			add("Algebra", func() any { return []int{ss.Union(ss).Size(), ss.Intersection(ss).Size(), ss.Difference(ss).Size()} })
		case *linkedhashset.Set[int]:
			add("Algebra", func() any { return []int{ss.Union(ss).Size(), ss.Intersection(ss).Size(), ss.Difference(ss).Size()} })
		}
	case *queInst:
		q := t.q
		add("Peek", func() any { v, ok := q.Peek(); return []any{v, ok} })
		add("Values", func() any { return sum(q.Values()) })
		add("String", func() any { return len(q.String()) })
		add("Iterate", func() any { return len(iterSeq(x)) })
	case *heapInst:
		add("Peek", func() any { return t.Do(Call{Op: "Peek"}) })
		add("Values", func() any { return len(fmt.Sprint(t.Do(Call{Op: "Values"}))) })
		add("Size", func() any { return t.Do(Call{Op: "Size"}) })
	case *mapInst:
		m := t.c
		add("Get", func() any { v, ok := m.Get(2999); w, ok2 := m.Get(99999); return []any{v, ok, w, ok2} })
		add("Keys", func() any { return sum(sortedInts(m.Keys())) })
		add("Values", func() any { return sum(sortedInts(vints(m.Values()))) })
		if !isTreeKind(t.kind) { // the drawing of a tree costs the square of its size (string concatenation)
			add("String", func() any { return len(m.String()) })
		}
		add("Size", func() any { return m.Size() })
		if jsonDisc(x.Kind()) != "unordered" {
			add("Iterate", func() any { return len(iterSeq(x)) })
		}
	}
	if j, ok := x.Target().(jsonable); ok {
		add("ToJSON", func() any { b, err := j.ToJSON(); return fmt.Sprint(len(b), err) })
	}
	return ops
}

// a B-tree of order 3 with 270 000 ascending keys is 18 levels deep: whatever is sized by the depth of a tree (indentation,
// path stacks, level tables) and grown on first use is grown here, by two goroutines at once
func deepTreeReaders(j *jobCtx, rr *readersRun) {
	for _, m := range []int{3} {
		if !j.want("btree") || budgetExceeded() {
			return
		}
		x := &mapInst{kind: "btree", cmp: "nat", m: m, c: newMap("btree", "nat", "", m), probeK: []int{0, 1}}
		t := x.c.(*btree.Tree[int, V])
		n := 270000
		if m == 4 {
			n = 90000
		}
		gi := guard("rd", "btree", "Build", func() {
			for i := 0; i < n; i++ {
				t.Put(i, V(i%50))
			}
		})
		if gi.Panic {
			continue
		}
		ops := []readOp{
			{"String", func() any { return len(t.String()) }},
			{"Get", func() any { v, ok := t.Get(n - 1); w, ok2 := t.Get(n); return []any{v, ok, w, ok2} }},
			{"Iterate", func() any {
				it := t.Iterator()
				c, sum := 0, 0
				for it.Next() {
					c++
					sum += it.Key() % 7
				}
				for i := 0; i < 40 && it.Prev(); i++ {
					sum += it.Key()
				}
				return []int{c, sum}
			}},
		}
		j.states++
		sparseFP = true // one deep fingerprint before and one after all pairs (a walk over 270 000 nodes by reflection each)
		readersState(j, rr, x, ops, 1, 2)
		sparseFP = false
	}
}

// readersState: every pair of the given read-only operations on x, `per` goroutines per operation
var sparseFP bool

func readersState(j *jobCtx, rr *readersRun, x Inst, ops []readOp, reps, per int) {
	fpAll := ""
	if sparseFP {
		fpAll = fullFP(x)
	}
	// The concurrent runs come FIRST and the sequential answers are taken afterwards (read-only operations:
	// the answers are the same before and after): state that is built lazily on first use - inside the
	// container or in package-level tables - is then first touched by two goroutines at once.
	type pairRes struct {
		a, b       int
		res        [][]string
		pan        bool
		pmsg       string
		out, races int
		pure       bool
	}
	var done []pairRes
	// A STORM first: every read-only operation at once, one goroutine each ("any number of goroutines"), released together,
	// before anything else has touched the state.  Logged as pair events (operation i with operation i+1 of the same run).
	var storm *pairRes
	if len(ops) >= 3 {
		fp0 := fullFP(x)
		rr.newRaces()
		res := make([][]string, len(ops))
		pan := make([]bool, len(ops))
		ci := invoke(skeletonRd(x, "storm", "storm"), func() {
			var wg sync.WaitGroup
			start := make(chan struct{})
			for g := range ops {
				wg.Add(1)
				go func(g int) {
					defer wg.Done()
					defer func() {
						if recover() != nil {
							pan[g] = true
						}
					}()
					<-start
					for r := 0; r < reps; r++ {
						res[g] = append(res[g], fmt.Sprint(ops[g].f()))
					}
				}(g)
			}
			close(start)
			wg.Wait()
		})
		anyPan := ci.Panic
		for _, p := range pan {
			anyPan = anyPan || p
		}
		storm = &pairRes{0, 0, res, anyPan, ci.PMsg, ci.Out, rr.newRaces(), fp0 == fullFP(x)}
	}
	for a := 0; a < len(ops); a++ {
		for b := a; b < len(ops); b++ {
			e := Ev{"fam": "rd", "kind": x.Kind(), "op": "Pair", "a": ops[a].name, "b": ops[b].name}
			fp0 := fpAll
			if !sparseFP {
				fp0 = fullFP(x)
			}
			rr.newRaces()
			res := make([][]string, 2*per)
			pan := make([]bool, 2*per)
			ci := invoke(skeletonRd(x, ops[a].name, ops[b].name), func() {
				var wg sync.WaitGroup
				start := make(chan struct{})
				var who []int
				for t := 0; t < per; t++ {
					who = append(who, a, b) // goroutine g runs operation a (g even) or b (g odd)
				}
				for g, oi := range who {
					wg.Add(1)
					go func(g, oi int) {
						defer wg.Done()
						defer func() {
							if recover() != nil {
								pan[g] = true
							}
						}()
						<-start
						for r := 0; r < reps; r++ {
							res[g] = append(res[g], fmt.Sprint(ops[oi].f()))
						}
					}(g, oi)
				}
				close(start)
				wg.Wait()
			})
			_ = e
			anyPan := ci.Panic
			for _, p := range pan {
				anyPan = anyPan || p
			}
			pure := true
			if !sparseFP {
				pure = fp0 == fullFP(x)
			}
			done = append(done, pairRes{a, b, res, anyPan, ci.PMsg, ci.Out, rr.newRaces(), pure})
		}
	}
	if sparseFP && fpAll != fullFP(x) {
		for i := range done {
			done[i].pure = false
		}
	}
	// sequential answers
	seq := make([]string, len(ops))
	for i, o := range ops {
		seq[i] = fmt.Sprint(o.f())
	}
	same := func(rs []string, want string) bool {
		for _, r := range rs {
			if r != want {
				return false
			}
		}
		return len(rs) == reps
	}
	if storm != nil {
		n := len(ops)
		for i := range ops {
			k := (i + 1) % n
			e := skeletonRd(x, ops[i].name, ops[k].name)
			e["sa"], e["sb"], e["readers"], e["reps"], e["storm"] = seq[i], seq[k], n, reps, true
			e["panic"], e["pmsg"], e["out"] = storm.pan, storm.pmsg, storm.out
			e["ra_ok"], e["rb_ok"] = same(storm.res[i], seq[i]), same(storm.res[k], seq[k])
			e["ra"], e["rb"] = first(storm.res[i]), first(storm.res[k])
			e["races"], e["pure"] = storm.races, storm.pure
			emit(e)
		}
		distinct["rd|"+x.Kind()+"|storm"] = struct{}{}
	}
	for _, d := range done {
		e := skeletonRd(x, ops[d.a].name, ops[d.b].name)
		e["sa"], e["sb"], e["readers"], e["reps"] = seq[d.a], seq[d.b], 2*per, reps
		e["panic"], e["pmsg"], e["out"] = d.pan, d.pmsg, d.out
		okA, okB := true, true
		for g := range d.res {
			if g%2 == 0 {
				okA = okA && same(d.res[g], seq[d.a])
			} else {
				okB = okB && same(d.res[g], seq[d.b])
			}
		}
		e["ra_ok"], e["rb_ok"] = okA, okB
		e["ra"], e["rb"] = first(d.res[0]), first(d.res[1])
		e["races"], e["pure"] = d.races, d.pure
		emit(e)
		distinct["rd|"+x.Kind()+"|"+ops[d.a].name+"|"+ops[d.b].name] = struct{}{}
	}
}

func skeletonRd(x Inst, a, b string) Ev {
	return Ev{"fam": "rd", "kind": x.Kind(), "cfg": jsonCfg(x), "op": "Pair", "rs": 1, "timeout": false, "obsbad": false,
		"a": a, "b": b, "sa": "", "sb": "", "ra": "", "rb": "", "ra_ok": false, "rb_ok": false, "races": 0, "pure": false,
		"panic": false, "pmsg": "", "out": 0, "readers": 2, "reps": 0}
}

func first(xs []string) string {
	if len(xs) == 0 {
		return ""
	}
	return xs[0]
}
