package main

// Heaps and priority queues made by the DEFAULT constructors (binaryheap.New[T](), priorityqueue.New[T]() with the
// built-in comparator of an ordered element type), family "heap": float elements including NaN, and strings.
// An element of rank r (its position in cmp.Compare order: NaN first) is logged as the record [p = r, id = r], so the
// events are ordinary heap events judged by TraceHeap under the comparator "prio"; equal elements are identical.

import (
	"cmp"
	"encoding/json"
	"math"
	"reflect"

	"github.com/emirpasic/gods/v2/queues/priorityqueue"
	"github.com/emirpasic/gods/v2/trees/binaryheap"
)

type dheapAPI[T any] interface {
	Empty() bool
	Size() int
	Clear()
	Values() []T
	String() string
	ToJSON() ([]byte, error)
	FromJSON([]byte) error
}

type dheapInst[T cmp.Ordered] struct {
	kind  string
	elems []T // by rank, in cmp.Compare order
	zero  int // rank of the Go zero value
	h     *binaryheap.Heap[T]
	q     *priorityqueue.Queue[T]
}

func (x *dheapInst[T]) rank(v T) int {
	for i, e := range x.elems {
		if cmp.Compare(e, v) == 0 {
			return i
		}
	}
	return 9
}
func (x *dheapInst[T]) pe(v T) PE { r := x.rank(v); return PE{P: r, ID: r} }
func (x *dheapInst[T]) pesT(vs []T) []PE {
	out := make([]PE, 0, len(vs))
	for _, v := range vs {
		out = append(out, x.pe(v))
	}
	return out
}
func (x *dheapInst[T]) dec(c Call) []T { // elements are coded 11 * rank
	out := make([]T, 0, len(c.Vs))
	for _, v := range c.Vs {
		out = append(out, x.elems[(v/10)%len(x.elems)])
	}
	return out
}
func (x *dheapInst[T]) api() dheapAPI[T] {
	if x.h != nil {
		return x.h
	}
	return x.q
}

func (x *dheapInst[T]) Fam() string  { return "heap" }
func (x *dheapInst[T]) Kind() string { return x.kind }
func (x *dheapInst[T]) Cfg() Ev {
	return Ev{"zero": PE{P: x.zero, ID: x.zero}, "cmp": "prio", "dflt": true}
}
func (x *dheapInst[T]) Target() any        { return x.api() }
func (x *dheapInst[T]) Mask() reflect.Type { return nil }
func (x *dheapInst[T]) Mutates(op string) bool {
	switch op {
	case "Push", "Pop", "Enqueue", "Dequeue", "Clear", "FromJSON":
		return true
	}
	return false
}
func (x *dheapInst[T]) peek() (T, bool) {
	if x.h != nil {
		return x.h.Peek()
	}
	return x.q.Peek()
}
func (x *dheapInst[T]) Observe() Ev {
	a := x.api()
	vals := a.Values()
	pv, pok := x.peek()
	var iter []T
	if x.h != nil {
		it := x.h.Iterator()
		for i := 0; it.Next() && i < 1<<20; i++ {
			iter = append(iter, it.Value())
		}
	} else {
		it := x.q.Iterator()
		for i := 0; it.Next() && i < 1<<20; i++ {
			iter = append(iter, it.Value())
		}
	}
	return Ev{"vals": x.pesT(vals), "size": a.Size(), "empty": a.Empty(), "name": firstLine(a.String()),
		"peek": []any{x.pe(pv), pok}, "iter": x.pesT(iter), "hasiter": true}
}
func (x *dheapInst[T]) Do(c Call) []any {
	switch c.Op {
	case "Push":
		x.h.Push(x.dec(c)...)
	case "Enqueue":
		x.q.Enqueue(x.dec(c)[0])
	case "Pop":
		v, ok := x.h.Pop()
		return []any{x.pe(v), ok}
	case "Dequeue":
		v, ok := x.q.Dequeue()
		return []any{x.pe(v), ok}
	case "Peek":
		v, ok := x.peek()
		return []any{x.pe(v), ok}
	case "Clear":
		x.api().Clear()
	case "FromJSON": // (NaN has no JSON text: the loads use the representable elements only)
		b, _ := json.Marshal(x.dec(c))
		return []any{x.api().FromJSON(b) == nil}
	case "Values":
		return []any{x.pesT(x.api().Values())}
	case "Size":
		return []any{x.api().Size()}
	case "Empty":
		return []any{x.api().Empty()}
	case "String":
		return []any{firstLine(x.api().String())}
	default:
		die("dheap: unknown op %s", c.Op)
	}
	return nil
}

type dheapUniverse[T cmp.Ordered] struct {
	kind   string
	elems  []T
	zero   int
	noJSON int // rank of an element without a JSON text (NaN), -1: none
	maxLen int
}

func (u *dheapUniverse[T]) New() Inst {
	x := &dheapInst[T]{kind: u.kind, elems: u.elems, zero: u.zero}
	if u.kind == "binaryheap" {
		x.h = binaryheap.New[T]()
	} else {
		x.q = priorityqueue.New[T]()
	}
	return x
}
func (u *dheapUniverse[T]) Inside(x Inst) bool { return x.(*dheapInst[T]).api().Size() <= u.maxLen }
func (u *dheapUniverse[T]) Calls(x Inst) []Call {
	if !u.Inside(x) {
		return nil
	}
	var codes, loadable []int
	for r := range u.elems {
		codes = append(codes, 11*r)
		if r != u.noJSON {
			loadable = append(loadable, 11*r)
		}
	}
	var cs []Call
	if u.kind == "binaryheap" {
		for _, c := range codes {
			cs = append(cs, Call{Op: "Push", Vs: []int{c}})
		}
		n := len(codes)
		cs = append(cs, Call{Op: "Push", Vs: []int{}}, Call{Op: "Push", Vs: []int{codes[n-1], codes[0]}},
			Call{Op: "Push", Vs: []int{codes[n-1], codes[n/2], codes[0]}}, Call{Op: "Push", Vs: []int{codes[1], codes[0], codes[n-1], codes[0]}},
			Call{Op: "Pop"})
	} else {
		for _, c := range codes {
			cs = append(cs, Call{Op: "Enqueue", Vs: []int{c}})
		}
		cs = append(cs, Call{Op: "Dequeue"})
	}
	m := len(loadable)
	cs = append(cs, Call{Op: "Peek"}, Call{Op: "Values"}, Call{Op: "Size"}, Call{Op: "Empty"}, Call{Op: "String"}, Call{Op: "Clear"},
		Call{Op: "FromJSON", Vs: []int{loadable[m-1], loadable[m/2], loadable[0]}}, Call{Op: "FromJSON", Vs: []int{}})
	return cs
}

type nF32 float32

func dfltHeaps(j *jobCtx, kind string) {
	nan := math.NaN()
	uf := &dheapUniverse[float64]{kind: kind, elems: []float64{nan, -1.5, 0, 2.5, 1e300}, zero: 2, noJSON: 0, maxLen: pickQ(j.quick(), 3, 4)}
	s, e := tour(uf, j.maxStates())
	j.states, j.edges = j.states+s, j.edges+e
	u32 := &dheapUniverse[nF32]{kind: kind, elems: []nF32{nF32(math.NaN()), -1, 0, 7}, zero: 2, noJSON: 0, maxLen: 3}
	s, e = tour(u32, j.maxStates())
	j.states, j.edges = j.states+s, j.edges+e
	us := &dheapUniverse[string]{kind: kind, elems: []string{"", "A", "a", "ab", "b"}, zero: 0, noJSON: -1, maxLen: 3}
	s, e = tour(us, j.maxStates())
	j.states, j.edges = j.states+s, j.edges+e
}

func pickQ[T any](quick bool, a, b T) T {
	if quick {
		return a
	}
	return b
}
