package main

// harness <job> -out <trace.ndjson> [-tier quick|thorough] [-seed N] [-kind K] [-part i/n]
//
// Jobs drive the real containers of the repository the module is built against and write one
// ndjson event per public call.  Next to the trace a <out>.stats.json is written with what was
// covered (counted here, reported in the evidence by bin/check).

import (
	"encoding/json"
	"flag"
	"fmt"
	"math/rand"
	"os"
	"runtime/debug"
	"sort"
	"strconv"
	"strings"
	"time"

	"github.com/emirpasic/gods/v2/queues/circularbuffer"
	"github.com/emirpasic/gods/v2/trees/btree"
)

func nowNanos() int64 { return time.Now().UnixNano() }

type jobCtx struct {
	tier   string
	seed   int64
	kind   string
	r      *rand.Rand
	states int
	edges  int
}

func (j *jobCtx) quick() bool { return j.tier != "thorough" }

// cap on the number of states one tour expands (a changed implementation may have many more states)
func (j *jobCtx) maxStates() int {
	if j.quick() {
		return 4000
	}
	return 40000
}
func (j *jobCtx) want(kind string) bool {
	if j.kind == "" {
		return true
	}
	for _, k := range strings.Split(j.kind, ",") {
		if k == kind {
			return true
		}
	}
	return false
}

var jobs = map[string]func(j *jobCtx){}

func main() {
	if len(os.Args) < 2 {
		die("usage: harness <job> -out file ...")
	}
	job := os.Args[1]
	fs := flag.NewFlagSet(job, flag.ExitOnError)
	out := fs.String("out", "", "trace file")
	tier := fs.String("tier", "quick", "quick|thorough")
	seed := fs.Int64("seed", 1, "seed")
	kind := fs.String("kind", "", "restrict to these kinds (comma separated)")
	nocap := fs.Bool("nocap", false, "do not redirect fd 1/2 (debugging)")
	fs.Parse(os.Args[2:])
	if job == "kinds" {
		listKinds()
		return
	}
	if job == "canon" {
		runCanon(*kind)
		return
	}
	f, ok := jobs[job]
	if !ok {
		die("unknown job %s", job)
	}
	if *out == "" {
		die("-out required")
	}
	openTrace(*out)
	if !*nocap {
		startCapture(*out + ".cap")
	}
	startWatchdog()
	startIntent()
	debug.SetMaxStack(256 << 20) // a runaway recursion dies in a second, not after a gigabyte
	budget := 90 * time.Second
	if *tier == "thorough" {
		budget = 15 * time.Minute
	}
	if s := os.Getenv("VERIF_JOB_BUDGET_S"); s != "" {
		if n, err := strconv.Atoi(s); err == nil {
			budget = time.Duration(n) * time.Second
		}
	}
	jobDeadline = time.Now().Add(budget).UnixNano()
	j := &jobCtx{tier: *tier, seed: *seed, kind: *kind, r: rand.New(rand.NewSource(*seed))}
	runJob(job, f, j)
	closeTrace()
	writeStats(*out+".stats.json", j)
	if !*nocap {
		os.Remove(*out + ".cap")
	}
}

// A panic that escapes a job: if it was raised INSIDE THE LIBRARY (the innermost non-runtime frame belongs to
// github.com/emirpasic/gods), in a call the harness made outside a logged call (an observer, a state builder), it is the
// library's behaviour and must end in a verdict: it is recorded as an event that did not complete, and the job ends there.
// A panic raised in the harness's own code is a harness defect: the process dies and the check reports infrastructure trouble.
func runJob(job string, f func(*jobCtx), j *jobCtx) {
	defer func() {
		r := recover()
		if r == nil {
			return
		}
		if !panickedInLibrary(string(debug.Stack())) {
			panic(r)
		}
		emit(Ev{"fam": job, "kind": j.kind, "cfg": Ev{}, "op": "Observe", "a": Call{}.A(), "rs": 1, "pre": 0, "post": 0, "r": []any{},
			"panic": true, "pmsg": fmt.Sprint(r) + " (in a library call made while observing or building; the job ended here)", "out": 0,
			"cmps": 0, "timeout": false, "mut": false, "obsbad": true, "fp": []string{"", "", ""}})
		extraStats["job_ended_by_library_panic"] = true
	}()
	f(j)
}

func panickedInLibrary(stack string) bool {
	lines := strings.Split(stack, "\n")
	for i := 0; i < len(lines); i++ {
		if !strings.HasPrefix(lines[i], "panic(") {
			continue
		}
		for k := i + 2; k < len(lines); k += 2 { // function line, file line, ...
			fn := lines[k]
			if strings.HasPrefix(fn, "runtime.") || strings.HasPrefix(fn, "panic(") {
				continue
			}
			return strings.HasPrefix(fn, "github.com/emirpasic/gods/")
		}
	}
	return false
}

func writeStats(path string, j *jobCtx) {
	ops := map[string]int{}
	for k, v := range statsMap {
		ops[k] = v
	}
	keys := make([]string, 0, len(distinct))
	for k := range distinct {
		keys = append(keys, k)
	}
	sort.Strings(keys)
	st := Ev{"events": nEvents, "ops": ops, "distinct": len(distinct) + len(distinctCases), "samples": samples,
		"states": j.states, "edges": j.edges, "segments": nSegments, "extra": extraStats}
	b, _ := json.MarshalIndent(st, "", " ")
	os.WriteFile(path, b, 0o644)
}

var extraStats = Ev{}

func listKinds() {
	b, _ := json.Marshal(kindsOf)
	os.Stdout.Write(b)
	os.Stdout.Write([]byte("\n"))
}

// kinds per job, used by bin/check to run one process per kind
var kindsOf = map[string][]string{
	"seq": {"arraylist", "singlylinkedlist", "doublylinkedlist"},
	"que": {"arraystack", "linkedliststack", "arrayqueue", "linkedlistqueue", "circularbuffer"},
}

func init() {
	jobs["seq"] = jobSeq
	jobs["que"] = jobQue
	jobs["map"] = jobMap
	jobs["set"] = jobSet
	jobs["alg"] = jobAlg
	jobs["heap"] = jobHeap
	kindsOf["set"] = []string{"hashset", "treeset", "linkedhashset"}
	kindsOf["alg"] = []string{"hashset", "treeset", "linkedhashset"}
	kindsOf["heap"] = []string{"binaryheap", "priorityqueue"}
	kindsOf["map"] = []string{"hashmap", "treemap", "linkedhashmap", "redblacktree", "avltree", "btree", "hashbidimap", "treebidimap"}
}

type mapCfg struct {
	cmp, vcmp string
	m, nk, nv int
}

// bounded universes of the map tours (quick, thorough)
// mapTourCfgs: the universes of the map tours; the default-constructor entry stands for every key type of the tier
func mapTourCfgs(kind string, quick bool) []mapCfg {
	var out []mapCfg
	for _, c := range mapTourCfgs0(kind, quick) {
		if c.cmp != "dflt" {
			out = append(out, c)
			continue
		}
		for _, v := range dfltVariants(quick) {
			d := c
			d.cmp = v
			out = append(out, d)
		}
	}
	return out
}

func mapTourCfgs0(kind string, quick bool) []mapCfg {
	q := func(a, b int) int {
		if quick {
			return a
		}
		return b
	}
	switch kind {
	case "redblacktree", "avltree":
		return []mapCfg{{"nat", "", 0, q(7, 10), 0}, {"revx", "", 0, q(5, 8), 0}, {"half", "", 0, q(7, 11), 0}, {"natx", "", 0, q(4, 7), 0},
			{"dflt", "", 0, 5, 0}}
	case "btree":
		return []mapCfg{{"nat", "", 3, q(8, 11), 0}, {"nat", "", 4, q(7, 10), 0}, {"nat", "", 5, q(8, 10), 0},
			{"nat", "", 6, q(8, 10), 0}, {"natx", "", 7, q(8, 10), 0}, {"revx", "", 3, q(5, 7), 0}, {"half", "", 3, q(7, 9), 0}, {"halfx", "", 4, q(7, 9), 0}, {"dflt", "", 3, 5, 0}}
	case "treemap":
		return []mapCfg{{"nat", "", 0, q(5, 7), 0}, {"revx", "", 0, q(4, 6), 0}, {"half", "", 0, q(5, 7), 0}, {"dflt", "", 0, 5, 0}}
	case "hashmap", "linkedhashmap":
		return []mapCfg{{"", "", 0, q(4, 5), 0}}
	case "hashbidimap":
		return []mapCfg{{"", "", 0, 3, 3}, {"", "", 0, q(2, 4), q(4, 3)}}
	case "treebidimap":
		return []mapCfg{{"nat", "nat", 0, 3, 3}, {"half", "nat", 0, 4, 3}, {"natx", "halfx", 0, 3, 4}, {"rev", "revx", 0, q(2, 4), 3}, {"dflt", "nat", 0, 5, 3}}
	}
	return nil
}

func jobMap(j *jobCtx) {
	ctr := 0
	for _, k := range kindsOf["map"] {
		if !j.want(k) {
			continue
		}
		// scripted histories first (fixed cost), so that a tour that explodes on a changed tree cannot starve them
		bigMap(j, k, j.r)
		scaleMap(j, k)
		churnMap(j, k)
		simMap(j, k) // behaviours generated by TLC's simulator from the implementation-shaped models, replayed here
		if k == "btree" {
			for _, bad := range []int{2, 1, 0, -3} {
				bad := bad
				cfg := (&mapInst{kind: k, cmp: "nat", m: bad}).Cfg()
				newBad("map", k, cfg, bad, func() { btree.NewWith[int, V](bad, cmpInt("nat")) })
				newBad("map", k, cfg, bad, func() { btree.New[int, V](bad) })
			}
		}
		for _, c := range mapTourCfgs(k, j.quick()) {
			u := &mapUniverse{kind: k, cmp: c.cmp, vcmp: c.vcmp, m: c.m, nk: c.nk, nv: c.nv, shape: true, ctr: &ctr}
			s, e := tour(u, j.maxStates())
			j.states += s
			j.edges += e
		}
		// random histories in larger universes
		n, steps := 3, 150
		if !j.quick() {
			n, steps = 30, 250
		}
		for _, pat := range []string{"random", "asc", "desc", "zigzag", "churn"} {
			for _, cmp := range []string{"nat", "rev", "half"} {
				ms := []int{0}
				if k == "btree" {
					ms = []int{3, 5, 8}
					if !j.quick() {
						ms = []int{3, 4, 5, 6, 7, 8, 16}
					}
				}
				for _, m := range ms {
					u := &mapRandom{kind: k, cmp: cmp, vcmp: "nat", m: m, nk: 20, nv: 6, shape: true, pattern: pat}
					if k == "treebidimap" && cmp == "rev" {
						u.vcmp = "half"
					}
					randomRun(u, j.r, n, steps)
				}
				if !mapSorted(k) {
					break
				}
			}
		}
	}
}

func jobSeq(j *jobCtx) {
	for _, k := range kindsOf["seq"] {
		if !j.want(k) {
			continue
		}
		// scripted histories first (fixed cost), so that a tour that explodes on a changed tree cannot starve them
		bigSeq(j, k)
		scaleSeq(j, k)
		churnSeq(j, k)
		// (1) exhaustive tour: values {1,2,3}, every index class, argument lists of length 0..2
		u := &seqUniverse{kind: k, vals: []int{0, 1, 2}, maxLen: 3, argLen: 2, cmps: []string{"nat", "rev", "half", "natx", "halfx"}, huge: true}
		if !j.quick() {
			u.maxLen = 4
		}
		s, e := tour(u, j.maxStates())
		j.states += s
		j.edges += e
		// (1b) float elements with both zeros, sorted by comparators on their codes (the natural one is IEEE totalOrder)
		uz := &seqUniverse{kind: k, vals: []int{1, 2, 3}, maxLen: 3, argLen: 2, cmps: []string{"nat", "rev", "natx"}, zeros: true}
		s, e = tour(uz, j.maxStates())
		j.states += s
		j.edges += e
		// (2) capacity thresholds of the array list: one value, longer lists
		u2 := &seqUniverse{kind: k, vals: []int{1}, maxLen: 17, argLen: 3, cmps: []string{"nat"}, capOnly: true}
		if !j.quick() {
			u2.maxLen = 33
		}
		s, e = tour(u2, j.maxStates())
		j.states += s
		j.edges += e
		// (3) random long histories
		n := 40
		if !j.quick() {
			n = 400
		}
		randomRun(&seqRandom{kind: k, nval: 5}, j.r, n, 120)
		// (4) large structured histories
	}
}

func jobQue(j *jobCtx) {
	for _, k := range kindsOf["que"] {
		if !j.want(k) {
			continue
		}
		// scripted histories first (fixed cost), so that a tour that explodes on a changed tree cannot starve them
		bigQue(j, k)
		scaleQue(j, k)
		churnQue(j, k)
		if k == "circularbuffer" {
			simRing(j) // behaviours generated by TLC's simulator from the ring model (capacities 7, 12), replayed here
			ringGrowth(j)
			ringZeroSize(j)
		}
		caps := []int{0}
		if k == "circularbuffer" {
			for _, bad := range []int{0, -1, -1 << 40} {
				bad := bad
				newBad("que", k, Ev{"zero": 0, "disc": "ring", "cap": clamp(bad)}, bad, func() { circularbuffer.New[int](bad) })
			}
			caps = []int{1, 2, 3, 4}
			if !j.quick() {
				caps = []int{1, 2, 3, 4, 5, 6}
			}
		}
		for _, c := range caps {
			u := &queUniverse{kind: k, cap: c, maxLen: 4, nval: 3}
			if k == "circularbuffer" {
				u.maxLen = c
			} else if !j.quick() {
				u.maxLen = 6
			}
			s, e := tour(u, j.maxStates())
			j.states += s
			j.edges += e
		}
		n := 30
		if !j.quick() {
			n = 300
		}
		rcaps := []int{0}
		if k == "circularbuffer" {
			rcaps = []int{1, 2, 3, 5, 8, 13, 64}
		}
		for _, c := range rcaps {
			randomRun(&queRandom{kind: k, cap: c}, j.r, n, 150)
		}
		if k == "circularbuffer" {
			// every (start, end, full) index state of larger rings (one value: the state space is the index arithmetic)
			for _, c := range []int{9, 12, 17} {
				s, e := tour(&queUniverse{kind: k, cap: c, maxLen: c, nval: 1}, j.maxStates())
				j.states += s
				j.edges += e
			}
		}
	}
}

func jobSet(j *jobCtx) {
	for _, k := range kindsOf["set"] {
		if !j.want(k) {
			continue
		}
		// scripted histories first (fixed cost), so that a tour that explodes on a changed tree cannot starve them
		bigSet(j, k)
		scaleSet(j, k)
		type sc struct {
			cmp string
			n   int
		}
		cfgs := []sc{{"", 4}}
		if k == "treeset" {
			cfgs = []sc{{"nat", 5}, {"revx", 4}, {"half", 5}, {"dflt", 5}}
			if !j.quick() {
				cfgs = []sc{{"nat", 7}, {"revx", 5}, {"halfx", 7}, {"dflt", 5}}
			}
		} else if !j.quick() {
			cfgs = []sc{{"", 5}}
		}
		for _, c := range cfgs {
			cmps := []string{c.cmp}
			if c.cmp == "dflt" {
				cmps = dfltVariants(j.quick()) // New(): every element type of the tier
			}
			for _, cmp := range cmps {
				u := &setUniverse{kind: k, cmp: cmp, n: c.n, argLen: 3}
				s, e := tour(u, j.maxStates())
				j.states += s
				j.edges += e
			}
		}
		n := 20
		if !j.quick() {
			n = 200
		}
		for _, cmp := range []string{"nat", "rev", "half"} {
			randomRun(&setRandom{kind: k, cmp: cmp, n: 12}, j.r, n, 150)
			if k != "treeset" {
				break
			}
		}
	}
}

func jobHeap(j *jobCtx) {
	for _, k := range kindsOf["heap"] {
		if !j.want(k) {
			continue
		}
		// scripted histories first (fixed cost), so that a tour that explodes on a changed tree cannot starve them
		bigHeap(j, k)
		scaleHeap(j, k)
		churnHeap(j, k)
		if k == "binaryheap" {
			simHeap(j) // behaviours generated by TLC's simulator from the heap model (24 items, bulk pushes), replayed here
		}
		dfltHeaps(j, k) // New(): built-in comparator, float elements incl. NaN, strings
		for _, cmp := range []string{"prio", "maxpriox", "prioid"} {
			u := &heapUniverse{kind: k, cmp: cmp, elems: []int{11, 12, 21, 22, 31}, maxLen: 3}
			if baseCmp(cmp) == "prio" || !j.quick() {
				u.maxLen = 4
			}
			if !j.quick() && cmp == "prio" {
				u.maxLen = 5
			}
			s, e := tour(u, j.maxStates())
			j.states += s
			j.edges += e
			n := 20
			if !j.quick() {
				n = 200
			}
			randomRun(&heapRandom{kind: k, cmp: cmp, np: 4}, j.r, n, 150)
		}
	}
}
