package main

// Family EXO (C17, C18): every exported method of every container kind and of its iterators, found by
// reflection, called on containers whose ELEMENT / KEY / VALUE types are not integers:
//   - pointers to a type whose String() / Error() dereference the receiver, nil among them
//   - interface-typed elements (any, error, fmt.Stringer): nil interfaces, typed nil pointers inside, mixed dynamic types
//   - structs and arrays that contain a NaN (x != x), empty structs, channels, strings with quotes / NUL / invalid UTF-8
// Arguments are generated from the parameter types: indices -1, 0, 1, size; elements from the pool; variadic lists of
// 0, 2 and all pool elements; comparators, predicates and mappers built with reflect.MakeFunc; []byte: the container's
// own ToJSON output, "null", "[]", "{}"; another container of the same kind for the set algebra.  What the calls
// return is not judged here (the typed families do that on integers): the obligation is that every call returns,
// writes nothing to fd 1 / 2 and - for the read-only methods - leaves the container's bytes as they were.

import (
	"errors"
	"fmt"
	"math"
	"reflect"
	"sort"
	"strings"

	"github.com/emirpasic/gods/v2/maps/hashbidimap"
	"github.com/emirpasic/gods/v2/maps/hashmap"
	"github.com/emirpasic/gods/v2/maps/linkedhashmap"
	"github.com/emirpasic/gods/v2/maps/treebidimap"
	"github.com/emirpasic/gods/v2/maps/treemap"
	"github.com/emirpasic/gods/v2/trees/avltree"
	"github.com/emirpasic/gods/v2/trees/btree"
	rbt "github.com/emirpasic/gods/v2/trees/redblacktree"
)

func init() {
	jobs["exo"] = jobExo
	kindsOf["exo"] = jsonKinds
}

// NS: String() dereferences its receiver (a direct call on a nil *NS panics; fmt recovers from that and prints <nil>)
type NS struct {
	N int
	S string
}

func (p *NS) String() string { return fmt.Sprintf("NS(%d,%s)", p.N, p.S) }

// NE: the same with Error()
type NE struct{ Code int }

func (p *NE) Error() string { return "E" + itoa(p.Code) }

type nanKey struct {
	F float64
	T string
}

// total preorders on the exotic types: by their %v / %#v text, nil first (any total preorder is a legal comparator)
func textOf(x any) string {
	defer func() { recover() }()
	v := reflect.ValueOf(x)
	if !v.IsValid() {
		return "\x00nil"
	}
	switch v.Kind() {
	case reflect.Ptr, reflect.Chan, reflect.Interface:
		if v.IsNil() {
			return "\x00nil:" + v.Type().String()
		}
	}
	return fmt.Sprintf("%T|%v", x, x)
}

func cmpByText[T any](a, b T) int { return strings.Compare(textOf(a), textOf(b)) }

var exoReadOnly = map[string]bool{"Empty": true, "Size": true, "Values": true, "Keys": true, "String": true, "ToJSON": true, "MarshalJSON": true,
	"Get": true, "GetKey": true, "Contains": true, "IndexOf": true, "Peek": true, "Full": true, "Left": true, "Right": true, "Min": true, "Max": true,
	"Floor": true, "Ceiling": true, "Height": true, "LeftKey": true, "RightKey": true, "LeftValue": true, "RightValue": true, "GetNode": true,
	"Iterator": true, "Each": true, "Any": true, "All": true, "Find": true, "Select": true, "Map": true, "Intersection": true, "Union": true,
	"Difference": true, "IteratorAt": true}

type exoCtx struct {
	kind, elem string
	pools      map[reflect.Type][]reflect.Value // values for parameters of a type
	cmps       map[reflect.Type]reflect.Value   // comparators func(a, b T) int by T
	mk         func() any
	calls      int
}

func (c *exoCtx) emit(method, args string, target any, readOnly bool, f func()) bool {
	e := Ev{"fam": "exo", "kind": c.kind, "cfg": Ev{"elem": c.elem}, "op": method, "args": args, "rs": 1, "timeout": false, "obsbad": false,
		"mut": !readOnly}
	fp0 := ""
	if readOnly && target != nil {
		fp0 = fpOf(purityString(target))
	}
	ci := invoke(e, f)
	e["panic"], e["pmsg"], e["out"] = ci.Panic, ci.PMsg, ci.Out
	e["pure"] = true
	if readOnly && target != nil && !ci.Panic {
		e["pure"] = fp0 == fpOf(purityString(target))
	}
	emit(e)
	c.calls++
	distinct["exo|"+c.kind+"|"+c.elem+"|"+method+"|"+args] = struct{}{}
	return !ci.Panic
}

// argument tuples for a method, generated from its parameter types; ok = false: a parameter type nobody can supply
func (c *exoCtx) argTuples(recv reflect.Value, m reflect.Method, size int) (tuples [][]reflect.Value, descr []string, ok bool) {
	mt := m.Type // includes the receiver as parameter 0
	n := mt.NumIn() - 1
	if n == 0 {
		return [][]reflect.Value{{}}, []string{""}, true
	}
	type choice struct {
		vals []reflect.Value
		desc string
	}
	var perParam [][]choice
	for i := 1; i <= n; i++ {
		pt := mt.In(i)
		variadic := mt.IsVariadic() && i == n
		var cs []choice
		switch {
		case variadic:
			pool := c.pools[pt.Elem()]
			if pool == nil {
				return nil, nil, false
			}
			cs = append(cs, choice{nil, "()"})
			if len(pool) >= 2 {
				cs = append(cs, choice{[]reflect.Value{pool[0], pool[1]}, "(2)"})
			}
			cs = append(cs, choice{append([]reflect.Value{}, pool...), "(all)"}, choice{[]reflect.Value{pool[len(pool)-1], pool[len(pool)-1]}, "(dup)"})
		case pt.Kind() == reflect.Int:
			for _, v := range []int{-1, 0, 1, size - 1, size, size + 1, math.MinInt, math.MaxInt} {
				cs = append(cs, choice{[]reflect.Value{reflect.ValueOf(v)}, itoa(clamp(v))})
			}
		case pt == reflect.TypeOf([]byte(nil)):
			texts := []string{"null", "[]", "{}", "", "[1", `{"a":`}
			if j, ok := recv.Interface().(jsonable); ok {
				var own []byte
				guard("exo", c.kind, "ToJSON", func() { own, _ = j.ToJSON() })
				if own != nil {
					texts = append([]string{string(own)}, texts...)
				}
			}
			for ti, t := range texts {
				d := "text" + itoa(ti)
				if ti == 0 && len(texts) == 7 {
					d = "own"
				}
				cs = append(cs, choice{[]reflect.Value{reflect.ValueOf([]byte(t))}, d})
			}
		case pt.Kind() == reflect.Func:
			f, fok := c.makeFunc(pt)
			if !fok {
				return nil, nil, false
			}
			cs = append(cs, choice{[]reflect.Value{f}, "f"})
		case pt == recv.Type(): // set algebra: the receiver itself and another container of the kind
			other := reflect.ValueOf(c.mk())
			cs = append(cs, choice{[]reflect.Value{recv}, "self"}, choice{[]reflect.Value{other}, "other"})
		default:
			pool := c.pools[pt]
			if pool == nil {
				return nil, nil, false
			}
			for pi, v := range pool {
				cs = append(cs, choice{[]reflect.Value{v}, "e" + itoa(pi)})
			}
		}
		perParam = append(perParam, cs)
	}
	// every choice of every parameter appears at least once; methods of several parameters get two passes with different pairings
	max := 0
	for _, cs := range perParam {
		if len(cs) > max {
			max = len(cs)
		}
	}
	passes := 1
	if len(perParam) > 1 {
		passes = 2
	}
	for pass := 0; pass < passes; pass++ {
		for t := 0; t < max; t++ {
			var tup []reflect.Value
			var d []string
			for pi, cs := range perParam {
				ch := cs[(t+pi*(1+pass*2))%len(cs)]
				tup = append(tup, ch.vals...)
				d = append(d, ch.desc)
			}
			tuples = append(tuples, tup)
			descr = append(descr, strings.Join(d, ","))
		}
	}
	return tuples, descr, true
}

// comparators, predicates and mappers of the container's own element types
func (c *exoCtx) makeFunc(ft reflect.Type) (reflect.Value, bool) {
	// func(a, b T) int: the comparator for T
	if ft.NumIn() == 2 && ft.NumOut() == 1 && ft.Out(0).Kind() == reflect.Int && ft.In(0) == ft.In(1) {
		if f, ok := c.cmps[ft.In(0)]; ok {
			return f.Convert(ft), true
		}
	}
	for i := 0; i < ft.NumOut(); i++ {
		switch ft.Out(i).Kind() {
		case reflect.Bool:
		default:
			found := false
			for j := 0; j < ft.NumIn(); j++ {
				if ft.In(j) == ft.Out(i) {
					found = true
				}
			}
			if !found {
				return reflect.Value{}, false
			}
		}
	}
	n := 0
	return reflect.MakeFunc(ft, func(args []reflect.Value) []reflect.Value {
		n++
		var out []reflect.Value
		for i := 0; i < ft.NumOut(); i++ {
			if ft.Out(i).Kind() == reflect.Bool {
				out = append(out, reflect.ValueOf(n%3 == 1))
				continue
			}
			// mappers: hand an argument of the result's type back (the last such argument: the value, for key-value mappers the
			// matching position)
			pick := -1
			cnt := 0
			for j := 0; j < ft.NumIn(); j++ {
				if ft.In(j) == ft.Out(i) {
					if pick < 0 || cnt <= i {
						pick = j
					}
					cnt++
				}
			}
			out = append(out, args[pick])
		}
		return out
	}), true
}

var exoSkip = map[string]bool{"UnmarshalJSON": true} // (json.Unmarshal's entry point: same code as FromJSON, which is called)

func (c *exoCtx) battery(cont any, rounds int) {
	recv := reflect.ValueOf(cont)
	t := recv.Type()
	var names []string
	for i := 0; i < t.NumMethod(); i++ {
		names = append(names, t.Method(i).Name)
	}
	sort.Strings(names)
	sizeOf := func() int {
		n := 0
		guard("exo", c.kind, "Size", func() { n = recv.MethodByName("Size").Call(nil)[0].Interface().(int) })
		return n
	}
	for round := 0; round < rounds; round++ {
		// mutators last in each round, Clear at the very end, so that the readers see content
		order := append([]string{}, names...)
		sort.SliceStable(order, func(a, b int) bool {
			ra, rb := exoReadOnly[order[a]], exoReadOnly[order[b]]
			if ra != rb {
				return ra
			}
			return order[a] != "Clear" && order[b] == "Clear"
		})
		for _, name := range order {
			if exoSkip[name] {
				continue
			}
			m, _ := t.MethodByName(name)
			tuples, descr, ok := c.argTuples(recv, m, sizeOf())
			if !ok {
				continue
			}
			for ti, tup := range tuples {
				if budgetExceeded() {
					return
				}
				if name == "Clear" && round == 0 {
					continue // keep the content for the second round
				}
				var results []reflect.Value
				tup := tup
				fine := c.emit(name, descr[ti], cont, exoReadOnly[name], func() { results = recv.MethodByName(name).Call(tup) })
				if fine && name == "Iterator" && len(results) == 1 {
					c.walkIterator(results[0], cont)
				}
				if fine && name == "GetNode" && len(results) == 1 && !results[0].IsNil() {
					if at := recv.MethodByName("IteratorAt"); at.IsValid() {
						var its []reflect.Value
						node := results[0]
						if c.emit("IteratorAt", "node", cont, true, func() { its = at.Call([]reflect.Value{node}) }) && len(its) == 1 {
							c.walkIterator(its[0], cont)
						}
					}
				}
			}
		}
	}
}

// iterators, used as documented: values are read only after a move that returned true
func (c *exoCtx) walkIterator(it reflect.Value, cont any) {
	p := it
	if it.Kind() != reflect.Ptr {
		p = reflect.New(it.Type())
		p.Elem().Set(it)
	} else if it.IsNil() {
		return
	}
	has := func(n string) bool { return p.MethodByName(n).IsValid() }
	move := func(n string, args ...reflect.Value) (ok bool) {
		c.emit("it."+n, "", cont, true, func() {
			r := p.MethodByName(n).Call(args)
			ok = len(r) == 1 && r[0].Kind() == reflect.Bool && r[0].Bool()
		})
		return ok
	}
	read := func() {
		for _, n := range []string{"Value", "Key", "Index"} {
			if has(n) {
				c.emit("it."+n, "", cont, true, func() { p.MethodByName(n).Call(nil) })
			}
		}
	}
	for i := 0; i < 12 && move("Next"); i++ {
		read()
	}
	if has("Prev") {
		for i := 0; i < 12 && move("Prev"); i++ {
			read()
		}
	}
	for _, n := range []string{"First", "Last"} {
		if has(n) && move(n) {
			read()
		}
	}
	for _, n := range []string{"Begin", "End"} {
		if has(n) {
			move(n)
		}
	}
	for _, n := range []string{"NextTo", "PrevTo"} {
		if !has(n) {
			continue
		}
		ft := p.MethodByName(n).Type().In(0)
		if f, ok := c.makeFunc(ft); ok {
			for i := 0; i < 3; i++ {
				if move(n, f) {
					read()
				}
			}
		}
		if n == "NextTo" && has("End") {
			move("End")
		}
	}
}

// ---------------------------------------------------------------------------------------------

func poolOf[T any](vs ...T) []reflect.Value {
	var out []reflect.Value
	for _, v := range vs {
		rv := reflect.New(reflect.TypeOf((*T)(nil)).Elem()).Elem()
		if x := reflect.ValueOf(v); x.IsValid() {
			rv.Set(x)
		}
		out = append(out, rv)
	}
	return out
}

func typeOf[T any]() reflect.Type { return reflect.TypeOf((*T)(nil)).Elem() }

// exoValues: the 13 value containers with element type E
func exoValues[E comparable](j *jobCtx, tag string, pool []E, extra ...E) {
	cmpE := cmpByText[E]
	for _, b := range elemBoxes[E](cmpE) {
		if !j.want(b.kind) || budgetExceeded() {
			continue
		}
		// `extra`: values that are stored but never passed as arguments - interface values whose dynamic type cannot be hashed
		// or compared with itself (slices, maps: what FromJSON makes of nested arrays and objects).  The two hash sets cannot
		// hold them (Go's map panics: the caller's error), every other kind can.
		fill := append([]E{}, pool...)
		if b.kind != "hashset" && b.kind != "linkedhashset" {
			fill = append(fill, extra...)
		}
		c := &exoCtx{kind: b.kind, elem: tag, pools: map[reflect.Type][]reflect.Value{typeOf[E](): poolOf(pool...)},
			cmps: map[reflect.Type]reflect.Value{typeOf[E](): reflect.ValueOf(cmpE)}}
		c.mk = func() any {
			x := b.mk()
			for _, e := range pool[:len(pool)/2+1] {
				b.add(x, e)
			}
			return x
		}
		var cont any
		gi := guard("exo", b.kind, "Build", func() {
			cont = b.mk()
			for _, e := range fill {
				b.add(cont, e)
			}
		})
		if gi.Panic || cont == nil {
			c.emit("Build", "", nil, false, func() {
				x := b.mk()
				for _, e := range fill {
					b.add(x, e)
				}
			})
			continue
		}
		c.battery(cont, 2)
		j.states++
	}
}

// exoMaps: the 8 key-value containers with key type K and value type W
func exoMaps[K comparable, W comparable](j *jobCtx, tag string, keys []K, vals []W) {
	cmpK, cmpW := cmpByText[K], cmpByText[W]
	type box struct {
		kind string
		mk   func() any
	}
	boxes := []box{
		{"hashmap", func() any { return hashmap.New[K, W]() }},
		{"linkedhashmap", func() any { return linkedhashmap.New[K, W]() }},
		{"treemap", func() any { return treemap.NewWith[K, W](cmpK) }},
		{"hashbidimap", func() any { return hashbidimap.New[K, W]() }},
		{"treebidimap", func() any { return treebidimap.NewWith[K, W](cmpK, cmpW) }},
		{"redblacktree", func() any { return rbt.NewWith[K, W](cmpK) }},
		{"avltree", func() any { return avltree.NewWith[K, W](cmpK) }},
		{"btree", func() any { return btree.NewWith[K, W](3, cmpK) }},
	}
	type putter interface{ Put(K, W) }
	for _, b := range boxes {
		if !j.want(b.kind) || budgetExceeded() {
			continue
		}
		c := &exoCtx{kind: b.kind, elem: tag, pools: map[reflect.Type][]reflect.Value{typeOf[K](): poolOf(keys...), typeOf[W](): poolOf(vals...)},
			cmps: map[reflect.Type]reflect.Value{typeOf[K](): reflect.ValueOf(cmpK), typeOf[W](): reflect.ValueOf(cmpW)}}
		if typeOf[K]() == typeOf[W]() {
			c.pools[typeOf[K]()] = poolOf(keys...)
		}
		fill := func(x any) {
			for i, k := range keys {
				x.(putter).Put(k, vals[i%len(vals)])
			}
		}
		c.mk = func() any { x := b.mk(); fill(x); return x }
		var cont any
		gi := guard("exo", b.kind, "Build", func() { cont = c.mk() })
		if gi.Panic || cont == nil {
			c.emit("Build", "", nil, false, func() { c.mk() })
			continue
		}
		c.battery(cont, 2)
		j.states++
	}
}

func jobExo(j *jobCtx) {
	a, b := &NS{1, "a"}, &NS{2, "b"}
	var nilNS *NS
	var nilNE *NE
	nan := math.NaN()
	ch := make(chan int)
	var nilCh chan int
	// pointers with a dereferencing String(), a nil one among them (and first, last, repeated)
	exoValues(j, "ptr", []*NS{nilNS, a, b, nilNS, a})
	// interfaces: nil interface, typed nil pointers inside, mixed dynamic types
	exoValues(j, "any", []any{nil, 1, "x", nilNS, a, nan, nanKey{nan, "n"}, [2]int{1, 2}, struct{}{}, errors.New("e"), nilNE})
	exoValues[any](j, "anyU", []any{nil, 1, "x", "y", 2.5, true}, any([]any{1, "in"}), any(map[string]any{"k": 1}), any([]int{3}), any(func() {}))
	exoValues(j, "error", []error{nil, nilNE, &NE{3}, errors.New("plain"), nilNE})
	exoValues(j, "stringer", []fmt.Stringer{nil, nilNS, a, b})
	// values that are not equal to themselves, zero-size values, channels, hostile strings
	exoValues(j, "nan", []nanKey{{nan, "a"}, {1, "b"}, {nan, "a"}, {0, ""}})
	exoValues(j, "arr", [][2]float64{{nan, 1}, {1, 2}, {nan, 1}, {0, 0}})
	exoValues(j, "empty", []struct{}{{}, {}, {}})
	exoValues(j, "chan", []chan int{nilCh, ch, ch, nilCh})
	exoValues(j, "str", []string{"", "a\"b", "nul\x00", "\xff\xfe", "<nil>", "a, b", "\n"})
	exoValues(j, "f32", []float32{float32(nan), 0, float32(math.Inf(-1)), 1.5, float32(nan)})
	// key-value containers
	exoMaps(j, "ptr", []*NS{nilNS, a, b}, []*NS{a, nilNS, b})
	exoMaps(j, "any", []any{nil, 1, "x", nilNS, a, nanKey{nan, "n"}, nilNE}, []any{nil, nilNS, 2, "y", nan})
	exoMaps(j, "strerr", []string{"", "a\"b", "nul\x00", "\xff"}, []error{nil, nilNE, errors.New("v")})
	exoMaps(j, "nan", []nanKey{{nan, "a"}, {1, "b"}, {nan, "a"}}, []float64{nan, 1, nan})
	exoMaps(j, "f64", []float64{nan, 0, math.Inf(1), nan}, []string{"", "x", "\xff"})
}
