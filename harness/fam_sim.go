package main

// Replay of TLC-GENERATED behaviours on the real code (DESIGN section 4.2 b, section 12.5).
//
// tools/runner.py runs TLC's simulator on the implementation-shaped tree models (spec/SimRBT, SimAVL,
// SimBT) in universes of 40-96 keys and leaves one file per model in $VERIF_SIM:  every line is one
// behaviour  [[op, key, canonical model state after the call], ...].  Here every behaviour is
//   (1) executed on a fresh real tree as an ordinary scripted history with complete observations -
//       recorded events, validated by TLC against TraceMap like any other (that is the verdict), and
//   (2) executed a second time on a bare tree, comparing the real tree's canonical concrete state
//       (keys, colours / balance factors / node contents; unexported fields by reflection) with the
//       state the MODEL predicted, after every call.  Counted in the job's statistics (`sim`), reported
//       as model_replay in the evidence: information about the model, never a verdict.

import (
	"bufio"
	"encoding/json"
	"os"
	"path/filepath"
	"reflect"
	"strconv"

	"github.com/emirpasic/gods/v2/queues/circularbuffer"
	"github.com/emirpasic/gods/v2/trees/binaryheap"

	"github.com/emirpasic/gods/v2/trees/avltree"
	"github.com/emirpasic/gods/v2/trees/btree"
	rbt "github.com/emirpasic/gods/v2/trees/redblacktree"
)

type simStep struct {
	op    string
	k     int
	canon string
}

func normJSON(raw json.RawMessage) string {
	var v any
	if json.Unmarshal(raw, &v) != nil {
		return string(raw)
	}
	b, _ := json.Marshal(v)
	return string(b)
}

func readSim(path string) [][]simStep {
	f, err := os.Open(path)
	if err != nil {
		return nil
	}
	defer f.Close()
	var out [][]simStep
	sc := bufio.NewScanner(f)
	sc.Buffer(make([]byte, 1<<20), 1<<28)
	for sc.Scan() {
		var beh [][]json.RawMessage
		if json.Unmarshal(sc.Bytes(), &beh) != nil {
			continue
		}
		var steps []simStep
		for _, s := range beh {
			if len(s) != 3 {
				continue
			}
			var st simStep
			json.Unmarshal(s[0], &st.op)
			json.Unmarshal(s[1], &st.k)
			st.canon = normJSON(s[2])
			steps = append(steps, st)
		}
		out = append(out, steps)
	}
	return out
}

// the real tree's canonical concrete state after every call of the behaviour, against the model's
func simCompare(kind string, m int, steps []simStep) (compared int, firstBad string) {
	defer func() {
		if r := recover(); r != nil && firstBad == "" {
			firstBad = "panic while replaying"
		}
	}()
	f := cmpInt("nat")
	var put func(k int)
	var rem func(k int)
	var canonNow func() any
	switch kind {
	case "redblacktree":
		t := rbt.NewWith[int, V](f)
		put, rem, canonNow = func(k int) { t.Put(k, 1) }, func(k int) { t.Remove(k) }, func() any { return canonRBT(t.Root) }
	case "avltree":
		t := avltree.NewWith[int, V](f)
		put, rem, canonNow = func(k int) { t.Put(k, 1) }, func(k int) { t.Remove(k) }, func() any { return canonAVL(t.Root) }
	default:
		t := btree.NewWith[int, V](m, f)
		put, rem, canonNow = func(k int) { t.Put(k, 1) }, func(k int) { t.Remove(k) }, func() any { return canonBT(t.Root) }
	}
	for i, s := range steps {
		if s.op == "Put" {
			put(s.k)
		} else {
			rem(s.k)
		}
		b, _ := json.Marshal(canonNow())
		compared++
		if string(b) != s.canon && firstBad == "" {
			firstBad = "step " + strconv.Itoa(i+1) + " " + s.op + "(" + strconv.Itoa(s.k) + "): model " + trunc(s.canon, 160) + " code " + trunc(string(b), 160)
			return
		}
	}
	return
}

func trunc(s string, n int) string {
	if len(s) > n {
		return s[:n] + "..."
	}
	return s
}

func simMap(j *jobCtx, kind string) {
	dir := os.Getenv("VERIF_SIM")
	if dir == "" {
		return
	}
	type src struct {
		file string
		m    int
	}
	var srcs []src
	switch kind {
	case "redblacktree", "treemap":
		srcs = []src{{"SimRBT", 0}}
	case "avltree":
		srcs = []src{{"SimAVL", 0}}
	case "btree":
		for _, m := range []int{3, 4, 5, 8, 12} {
			srcs = append(srcs, src{"SimBT" + strconv.Itoa(m), m})
		}
	default:
		return
	}
	stats, _ := extraStats["sim"].([]Ev)
	for _, s := range srcs {
		behs := readSim(filepath.Join(dir, s.file+".ndjson"))
		if len(behs) == 0 {
			continue
		}
		nsteps, compared, identical, first := 0, 0, 0, ""
		for _, steps := range behs {
			maxK := 0
			var cs []Call
			for i, st := range steps {
				if st.k > maxK {
					maxK = st.k
				}
				if st.op == "Put" {
					cs = append(cs, Call{Op: "Put", I: st.k, V: 100 + i%50})
				} else {
					cs = append(cs, Call{Op: "Remove", I: st.k})
				}
				if i%7 == 3 {
					cs = append(cs, Call{Op: "Get", I: st.k})
				}
			}
			var pk []int
			for k := 0; k <= maxK+1; k++ {
				pk = append(pk, k)
			}
			x := &mapInst{kind: kind, cmp: "nat", vcmp: "nat", m: s.m, c: newMap(kind, "nat", "nat", s.m), probeK: pk, shape: true}
			runScript(x, cs) // (1) recorded events: the verdict comes from TLC on these
			nsteps += len(cs)
			if kind != "treemap" { // (2) model state vs code state
				n, bad := simCompare(kind, s.m, steps)
				compared += n
				if bad == "" {
					identical++
				} else if first == "" {
					first = bad
				}
			}
		}
		e := Ev{"kind": kind, "model": s.file, "behaviours": len(behs), "calls": nsteps, "states_compared": compared,
			"behaviours_identical": identical}
		if first != "" {
			e["first_difference"] = first
		}
		stats = append(stats, e)
	}
	extraStats["sim"] = stats
}

// ---- ring: behaviours of spec/SimRing (capacities 7 and 12) ----
func ringCanon(q any) any {
	vals := []int{}
	v := field(q, "values")
	for i := 0; i < v.Len(); i++ {
		vals = append(vals, int(v.Index(i).Int()))
	}
	return []any{vals, int(field(q, "start").Int()), int(field(q, "end").Int()), field(q, "full").Bool(), int(field(q, "size").Int())}
}

type simStepV struct {
	op    string
	arg   json.RawMessage
	canon string
}

func readSimV(path string) [][]simStepV {
	f, err := os.Open(path)
	if err != nil {
		return nil
	}
	defer f.Close()
	var out [][]simStepV
	sc := bufio.NewScanner(f)
	sc.Buffer(make([]byte, 1<<20), 1<<28)
	for sc.Scan() {
		var beh [][]json.RawMessage
		if json.Unmarshal(sc.Bytes(), &beh) != nil {
			continue
		}
		var steps []simStepV
		for _, s := range beh {
			if len(s) != 3 {
				continue
			}
			st := simStepV{arg: s[1], canon: normJSON(s[2])}
			json.Unmarshal(s[0], &st.op)
			steps = append(steps, st)
		}
		out = append(out, steps)
	}
	return out
}

func simRing(j *jobCtx) {
	dir := os.Getenv("VERIF_SIM")
	if dir == "" {
		return
	}
	stats, _ := extraStats["sim"].([]Ev)
	for _, c := range []int{7, 12} {
		name := "SimRing" + strconv.Itoa(c)
		behs := readSimV(filepath.Join(dir, name+".ndjson"))
		if len(behs) == 0 {
			continue
		}
		ncalls, compared, identical, first := 0, 0, 0, ""
		for _, steps := range behs {
			var cs []Call
			for i, st := range steps {
				var v int
				json.Unmarshal(st.arg, &v)
				switch st.op {
				case "Enqueue":
					cs = append(cs, Call{Op: "Enqueue", V: v})
				case "Dequeue":
					cs = append(cs, Call{Op: "Dequeue"})
				case "Clear":
					cs = append(cs, Call{Op: "Clear"})
				}
				if i%9 == 4 {
					cs = append(cs, Call{Op: "Peek"}, Call{Op: "Full"})
				}
			}
			runScript(&queInst{kind: "circularbuffer", cap: c, q: newQue("circularbuffer", c)}, cs)
			ncalls += len(cs)
			bad := func() (bad string) { // model state vs code state after every call
				defer func() {
					if recover() != nil && bad == "" {
						bad = "panic while replaying"
					}
				}()
				q := circularbuffer.New[int](c)
				for i, st := range steps {
					var v int
					json.Unmarshal(st.arg, &v)
					switch st.op {
					case "Enqueue":
						q.Enqueue(v)
					case "Dequeue":
						q.Dequeue()
					case "Clear":
						q.Clear()
					}
					b, _ := json.Marshal(ringCanon(q))
					compared++
					if string(b) != st.canon {
						return "step " + strconv.Itoa(i+1) + " " + st.op + ": model " + trunc(st.canon, 120) + " code " + trunc(string(b), 120)
					}
				}
				return ""
			}()
			if bad == "" {
				identical++
			} else if first == "" {
				first = bad
			}
		}
		e := Ev{"kind": "circularbuffer", "model": name, "behaviours": len(behs), "calls": ncalls, "states_compared": compared, "behaviours_identical": identical}
		if first != "" {
			e["first_difference"] = first
		}
		stats = append(stats, e)
	}
	extraStats["sim"] = stats
}

// ---- heap: behaviours of spec/SimHeap (24 items, bulk pushes) ----
func simHeap(j *jobCtx) {
	dir := os.Getenv("VERIF_SIM")
	if dir == "" {
		return
	}
	behs := readSimV(filepath.Join(dir, "SimHeap.ndjson"))
	if len(behs) == 0 {
		return
	}
	stats, _ := extraStats["sim"].([]Ev)
	ncalls, compared, identical, first := 0, 0, 0, ""
	for _, steps := range behs {
		var cs []Call
		for i, st := range steps {
			if st.op == "Pop" {
				cs = append(cs, Call{Op: "Pop"})
			} else {
				var es []PE
				json.Unmarshal(st.arg, &es)
				vs := []int{}
				for _, e := range es {
					vs = append(vs, 10*e.P+e.ID)
				}
				cs = append(cs, Call{Op: "Push", Vs: vs})
			}
			if i%9 == 4 {
				cs = append(cs, Call{Op: "Peek"}, Call{Op: "Values"})
			}
		}
		runScript(newHeapInst("binaryheap", "prio"), cs)
		ncalls += len(cs)
		bad := func() (bad string) {
			defer func() {
				if recover() != nil && bad == "" {
					bad = "panic while replaying"
				}
			}()
			h := binaryheap.NewWith[PE](cmpPE("prio"))
			for i, st := range steps {
				if st.op == "Pop" {
					h.Pop()
				} else {
					var es []PE
					json.Unmarshal(st.arg, &es)
					h.Push(es...)
				}
				lst := field(h, "list")
				for lst.Kind() == reflect.Ptr {
					lst = lst.Elem()
				}
				el := lst.FieldByName("elements")
				arr := []any{}
				for k := 0; k < el.Len(); k++ {
					arr = append(arr, Ev{"p": int(el.Index(k).Field(0).Int()), "id": int(el.Index(k).Field(1).Int())})
				}
				b, _ := json.Marshal(arr)
				compared++
				if string(b) != st.canon {
					return "step " + strconv.Itoa(i+1) + " " + st.op + ": model " + trunc(st.canon, 120) + " code " + trunc(string(b), 120)
				}
			}
			return ""
		}()
		if bad == "" {
			identical++
		} else if first == "" {
			first = bad
		}
	}
	e := Ev{"kind": "binaryheap", "model": "SimHeap", "behaviours": len(behs), "calls": ncalls, "states_compared": compared, "behaviours_identical": identical}
	if first != "" {
		e["first_difference"] = first
	}
	extraStats["sim"] = append(stats, e)
}
