package main

// Job CANON: the canonical CONCRETE states of the real code reachable in a model's universe, one
// JSON line each, in the format the implementation-shaped TLA+ models dump (fidelity comparison,
// DESIGN section 4.4; information only, never a verdict).  Unexported fields are read by reflection.

import (
	"encoding/json"
	"fmt"
	"os"
	"reflect"
	"sort"
	"strconv"
	"strings"

	"github.com/emirpasic/gods/v2/queues/circularbuffer"
	"github.com/emirpasic/gods/v2/trees/avltree"
	"github.com/emirpasic/gods/v2/trees/binaryheap"
	"github.com/emirpasic/gods/v2/trees/btree"
	rbt "github.com/emirpasic/gods/v2/trees/redblacktree"
)

func field(v any, name string) reflect.Value {
	r := reflect.ValueOf(v)
	for r.Kind() == reflect.Ptr {
		r = r.Elem()
	}
	return r.FieldByName(name)
}

func canonRBT(n *rbt.Node[int, V]) any {
	if n == nil {
		return []any{}
	}
	return []any{n.Key, field(n, "color").Bool(), canonRBT(n.Left), canonRBT(n.Right)}
}
func canonAVL(n *avltree.Node[int, V]) any {
	if n == nil {
		return []any{}
	}
	return []any{n.Key, int(field(n, "b").Int()), canonAVL(n.Children[0]), canonAVL(n.Children[1])}
}
func canonBT(n *btree.Node[int, V]) any {
	if n == nil {
		return []any{}
	}
	ks := []int{}
	for _, e := range n.Entries {
		ks = append(ks, e.Key)
	}
	cs := []any{}
	for _, c := range n.Children {
		cs = append(cs, canonBT(c))
	}
	return []any{ks, cs}
}

// canon <model>:<n>[:<m>] writes the state set to stdout
func runCanon(arg string) {
	parts := strings.Split(arg, ":")
	n, _ := strconv.Atoi(parts[1])
	m := 0
	if len(parts) > 2 {
		m, _ = strconv.Atoi(parts[2])
	}
	set := map[string]bool{}
	var edges []string
	add := func(v any) bool {
		b, _ := json.Marshal(v)
		if set[string(b)] {
			return false
		}
		set[string(b)] = true
		return true
	}
	type step struct {
		put bool
		k   int
	}
	switch parts[0] {
	case "rbt", "avl", "bt":
		mk := func(path []step) any {
			f := cmpInt("nat")
			switch parts[0] {
			case "rbt":
				t := rbt.NewWith[int, V](f)
				for _, s := range path {
					if s.put {
						t.Put(s.k, 1)
					} else {
						t.Remove(s.k)
					}
				}
				return canonRBT(t.Root)
			case "avl":
				t := avltree.NewWith[int, V](f)
				for _, s := range path {
					if s.put {
						t.Put(s.k, 1)
					} else {
						t.Remove(s.k)
					}
				}
				return canonAVL(t.Root)
			}
			t := btree.NewWith[int, V](m, f)
			for _, s := range path {
				if s.put {
					t.Put(s.k, 1)
				} else {
					t.Remove(s.k)
				}
			}
			return canonBT(t.Root)
		}
		queue := [][]step{nil}
		add(mk(nil))
		for len(queue) > 0 && len(set) < 2000000 {
			p := queue[0]
			queue = queue[1:]
			from, _ := json.Marshal(mk(p))
			for k := 1; k <= n; k++ {
				for _, put := range []bool{true, false} {
					np := append(append([]step{}, p...), step{put, k})
					to := mk(np)
					tb, _ := json.Marshal(to)
					opn := "Remove"
					if put {
						opn = "Put"
					}
					edges = append(edges, fmt.Sprintf("E|[%s,%q,%d,%s]", from, opn, k, tb))
					if add(to) {
						queue = append(queue, np)
					}
				}
			}
		}
	case "ring": // capacity n, values 1..3
		type rs struct{ path []int } // 0 = dequeue, -1 = clear, v > 0 enqueue
		mk := func(path []int) any {
			q := circularbuffer.New[int](n)
			for _, s := range path {
				switch {
				case s > 0:
					q.Enqueue(s)
				case s == 0:
					q.Dequeue()
				default:
					q.Clear()
				}
			}
			vals := []int{}
			v := field(q, "values")
			for i := 0; i < v.Len(); i++ {
				vals = append(vals, int(v.Index(i).Int()))
			}
			return []any{vals, int(field(q, "start").Int()), int(field(q, "end").Int()), field(q, "full").Bool(), int(field(q, "size").Int())}
		}
		queue := [][]int{nil}
		add(mk(nil))
		for len(queue) > 0 {
			p := queue[0]
			queue = queue[1:]
			for _, s := range []int{1, 2, 3, 0, -1} {
				np := append(append([]int{}, p...), s)
				if add(mk(np)) {
					queue = append(queue, np)
				}
			}
		}
	case "heap": // items as in MCHeap!ItemsDef, each at most once; comparator from parts[2..]
		cmp := "prio"
		if len(parts) > 2 {
			cmp = parts[2]
		}
		items := []PE{{1, 1}, {1, 2}, {2, 3}, {2, 4}, {3, 5}, {0, 0}}
		type hs struct {
			ops [][]int // item indices pushed together; {-1} = pop ; {-2} clear
		}
		mk := func(ops [][]int) (any, map[int]bool) {
			h := binaryheap.NewWith[PE](cmpPE(cmp))
			for _, o := range ops {
				switch {
				case len(o) == 1 && o[0] == -1:
					h.Pop()
				case len(o) == 1 && o[0] == -2:
					h.Clear()
				default:
					vs := []PE{}
					for _, i := range o {
						vs = append(vs, items[i])
					}
					h.Push(vs...)
				}
			}
			lst := field(h, "list")
			for lst.Kind() == reflect.Ptr {
				lst = lst.Elem()
			}
			el := lst.FieldByName("elements")
			out := []any{}
			used := map[int]bool{}
			for i := 0; i < el.Len(); i++ {
				p, id := int(el.Index(i).Field(0).Int()), int(el.Index(i).Field(1).Int())
				out = append(out, Ev{"p": p, "id": id})
				for ix, it := range items {
					if it.P == p && it.ID == id {
						used[ix] = true
					}
				}
			}
			return out, used
		}
		queue := [][][]int{nil}
		v0, _ := mk(nil)
		add(v0)
		for len(queue) > 0 {
			p := queue[0]
			queue = queue[1:]
			_, used := mk(p)
			var free []int
			for i := range items {
				if !used[i] {
					free = append(free, i)
				}
			}
			cands := [][]int{{-1}, {-2}, {}}
			for _, a := range free {
				cands = append(cands, []int{a})
				for _, b := range free {
					if a != b {
						cands = append(cands, []int{a, b})
						for _, c := range free {
							if c != a && c != b {
								cands = append(cands, []int{a, b, c})
							}
						}
					}
				}
			}
			for _, c := range cands {
				np := append(append([][]int{}, p...), c)
				v, _ := mk(np)
				if add(v) {
					queue = append(queue, np)
				}
			}
		}
	default:
		die("canon: unknown model %s", parts[0])
	}
	keys := make([]string, 0, len(set))
	for k := range set {
		keys = append(keys, k)
	}
	sort.Strings(keys)
	for _, k := range keys {
		fmt.Fprintln(os.Stdout, k)
	}
	for _, e := range edges {
		fmt.Fprintln(os.Stdout, e)
	}
}
