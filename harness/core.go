package main

// Core of the conformance harness: event writer, panic / output / time-out capture,
// counting comparators, deep canonical serialisation (state identity and purity fingerprints).
//
// The harness never decides a property.  It drives the REAL containers of /repo and records what
// it observes as ndjson events; TLC validates the events against the TLA+ trace specifications.

import (
	"bufio"
	"encoding/json"
	"fmt"
	"hash/fnv"
	"os"
	"reflect"
	"regexp"
	"sort"
	"strconv"
	"strings"
	"sync/atomic"
	"syscall"
	"time"
)

type Ev = map[string]any

// ---------------------------------------------------------------------------------------------
// trace output

var (
	traceW    *bufio.Writer
	traceF    *os.File
	nEvents   int
	nSegments int
	origErr   *os.File // the real stderr (fd 2 is redirected to the capture file)
	capF      *os.File
	statsMap  = map[string]int{}
	samples   []Ev
	distinct  = map[string]struct{}{}
)

func openTrace(path string) {
	f, err := os.Create(path)
	if err != nil {
		die("cannot create trace: %v", err)
	}
	traceF = f
	traceW = bufio.NewWriterSize(f, 1<<20)
}

func closeTrace() {
	if traceW != nil {
		traceW.Flush()
		traceF.Close()
	}
}

// numbers that TLC's 32-bit integers cannot hold (a Size() of -9223372036854775806 on a changed tree, say) are clamped to
// +-2^30 in the log: they stay absurd, and the trace stays readable.  Numbers inside strings are left alone.
var hugeNumber = regexp.MustCompile(`([\[,:])(-?[0-9]{10,})([\],}])`)

func clampJSON(b []byte) []byte {
	if !hugeNumber.Match(b) {
		return b
	}
	// (applied twice: adjacent numbers share their separator)
	for pass := 0; pass < 2; pass++ {
		b = hugeNumber.ReplaceAllFunc(b, func(m []byte) []byte {
			sub := hugeNumber.FindSubmatch(m)
			lim := []byte(strconv.Itoa(clampLim))
			if sub[2][0] == '-' {
				lim = []byte(strconv.Itoa(-clampLim))
			}
			if n, err := strconv.ParseInt(string(sub[2]), 10, 64); err == nil && n >= -clampLim && n <= clampLim {
				return m
			}
			return append(append(append([]byte{}, sub[1]...), lim...), sub[3]...)
		})
	}
	return b
}

func emit(e Ev) {
	b, err := json.Marshal(e)
	if err != nil {
		die("marshal: %v", err)
	}
	b = clampJSON(b)
	traceW.Write(b)
	traceW.WriteByte('\n')
	nEvents++
	if rs, ok := e["rs"].(int); ok && rs >= 1 {
		nSegments++
	}
	if op, ok := e["op"].(string); ok {
		k, _ := e["kind"].(string)
		statsMap[k+"."+op]++
	}
	if len(samples) < 8 && nEvents%211 == 5 {
		samples = append(samples, compactSample(e))
	}
}

// a short human-readable rendering of an event for the evidence file
func compactSample(e Ev) Ev {
	s := Ev{}
	for _, k := range []string{"fam", "kind", "op", "r", "panic", "cfg", "cmps", "p", "mp", "text", "at"} {
		if v, ok := e[k]; ok {
			s[k] = v
		}
	}
	if a, ok := e["a"].(Ev); ok { // only the arguments in use
		args := Ev{}
		for k, v := range a {
			switch t := v.(type) {
			case int:
				if t != 0 {
					args[k] = t
				}
			case string:
				if t != "" {
					args[k] = t
				}
			case []int:
				if len(t) > 0 {
					args[k] = t
				}
			}
		}
		s["args"] = args
	}
	// the observed abstract state before and after, abbreviated
	for _, k := range []string{"pre", "post"} {
		if o, ok := e[k].(Ev); ok {
			ab := Ev{}
			for _, f := range []string{"vals", "keys", "size", "peek", "full"} {
				if v, ok := o[f]; ok {
					ab[f] = v
				}
			}
			s[k] = ab
		}
	}
	return s
}

// distinct cases: a call from a distinct (kind, configuration, concrete source state, operation, argument tuple)
var distinctCases = map[uint64]struct{}{}

func noteCase(parts ...string) {
	h := fnv.New64a()
	for _, p := range parts {
		h.Write([]byte(p))
		h.Write([]byte{0})
	}
	distinctCases[h.Sum64()] = struct{}{}
}

func die(format string, a ...any) {
	w := origErr
	if w == nil {
		w = os.Stderr
	}
	fmt.Fprintf(w, "harness: "+format+"\n", a...)
	os.Exit(2)
}

func logf(format string, a ...any) {
	w := origErr
	if w == nil {
		w = os.Stderr
	}
	fmt.Fprintf(w, format+"\n", a...)
}

// ---------------------------------------------------------------------------------------------
// capture of file descriptors 1 and 2 (C17: no operation writes to stdout / stderr)

func startCapture(path string) {
	e, err := syscall.Dup(2)
	if err != nil {
		die("dup: %v", err)
	}
	origErr = os.NewFile(uintptr(e), "origerr")
	f, err := os.OpenFile(path, os.O_CREATE|os.O_RDWR|os.O_TRUNC|os.O_APPEND, 0o644)
	if err != nil {
		die("capture file: %v", err)
	}
	capF = f
	if err := syscall.Dup2(int(f.Fd()), 1); err != nil {
		die("dup2: %v", err)
	}
	if err := syscall.Dup2(int(f.Fd()), 2); err != nil {
		die("dup2: %v", err)
	}
}

func capSize() int64 {
	if capF == nil {
		return 0
	}
	var st syscall.Stat_t
	if err := syscall.Fstat(int(capF.Fd()), &st); err != nil {
		return 0
	}
	return st.Size
}

// ---------------------------------------------------------------------------------------------
// watchdog (C17: every operation terminates)

var lastProgress atomic.Int64

var (
	wdDeadline atomic.Int64 // unix nanos; 0 = disarmed
	wdCurrent  atomic.Value // description of the running call (Ev)
	wdLimit    = 10 * time.Second
)

func startWatchdog() {
	if s := os.Getenv("VERIF_WATCHDOG_MS"); s != "" {
		if n, err := strconv.Atoi(s); err == nil {
			wdLimit = time.Duration(n) * time.Millisecond
		}
	}
	go func() {
		for {
			time.Sleep(50 * time.Millisecond)
			if lp := lastProgress.Load(); lp != 0 && time.Now().UnixNano()-lp > int64(60*time.Second) && wdDeadline.Load() == 0 {
				// the harness itself is stuck in a library call it made outside a logged call
				wdDeadline.Store(1)
			}
			d := wdDeadline.Load()
			if d != 0 && time.Now().UnixNano() > d {
				// the running call did not return: record it and stop the process
				if cur, ok := wdCurrent.Load().(Ev); ok && cur != nil {
					cur["timeout"] = true
					// the description of a call made while observing or building has only a few fields: complete it, so
					// that the line is an event like any other (one that did not complete)
					for k, v := range map[string]any{"fam": "", "kind": "", "cfg": Ev{}, "op": "", "a": Call{}.A(), "rs": 1, "pre": 0, "post": 0,
						"r": []any{}, "panic": false, "pmsg": "", "out": 0, "cmps": 0, "mut": false, "obsbad": true, "fp": []string{"", "", ""}} {
						if _, has := cur[k]; !has {
							cur[k] = v
						}
					}
					b, _ := json.Marshal(cur)
					// the main goroutine is stuck inside the library, so the writer is ours
					traceW.Write(b)
					traceW.WriteByte('\n')
				}
				traceW.Flush()
				logf("harness: watchdog expired")
				os.Exit(3)
			}
		}
	}()
}

// invoke runs f, recording panic, bytes written to fd 1/2 and comparator calls.
type callInfo struct {
	Panic bool
	PMsg  string
	Out   int
	Cmps  int
}

// intent mode (VERIF_INTENT=<file>): the call about to be made is written to a side file first, so that a
// call that kills the process (stack overflow, fatal runtime error) can still be named (C17)
var intentF *os.File

func startIntent() {
	if p := os.Getenv("VERIF_INTENT"); p != "" {
		f, err := os.OpenFile(p, os.O_CREATE|os.O_RDWR|os.O_TRUNC, 0o644)
		if err == nil {
			intentF = f
		}
	}
}

func invoke(desc Ev, f func()) (ci callInfo) {
	if intentF != nil {
		if b, err := json.Marshal(desc); err == nil {
			intentF.Truncate(0)
			intentF.WriteAt(b, 0)
			if traceW != nil {
				traceW.Flush()
			}
		}
	}
	before := capSize()
	c0 := cmpCalls()
	wdCurrent.Store(desc)
	wdDeadline.Store(time.Now().Add(wdLimit).UnixNano())
	func() {
		defer func() {
			if r := recover(); r != nil {
				ci.Panic = true
				ci.PMsg = fmt.Sprint(r)
			}
		}()
		f()
	}()
	wdDeadline.Store(0)
	lastProgress.Store(time.Now().UnixNano())
	ci.Cmps = cmpCalls() - c0
	ci.Out = int(capSize() - before)
	return
}

// ---------------------------------------------------------------------------------------------
// comparators as rank functions (a strict weak order is a ranking); they count their calls

// comparator call counter; atomic so that the comparators themselves are race free (family RD)
var cmpCounter atomic.Int64

func cmpCalls() int { return int(cmpCounter.Load()) }

// baseCmp strips the "x" suffix: "natx" orders like "nat" but returns magnitudes, not just -1/0/1
func baseCmp(mode string) string { return strings.TrimSuffix(mode, "x") }
func isMag(mode string) bool     { return strings.HasSuffix(mode, "x") }

var magTick atomic.Int64

func sign3or(mag bool, ra, rb int) int {
	if mag { // any strict weak order may return any negative / positive number: magnitudes 1, 2, 4, ... 2^40 in turn
		d := 1 << uint(magTick.Add(1)%41)
		switch {
		case ra < rb:
			return -d
		case ra > rb:
			return d
		}
		return 0
	}
	switch {
	case ra < rb:
		return -1
	case ra > rb:
		return 1
	}
	return 0
}

func rankOf(mode string, x int) int {
	switch baseCmp(mode) {
	case "rev":
		return -x
	case "half":
		if x < 0 { // floor division, like TLA+ \div (Go's / truncates towards zero)
			return -((-x + 1) / 2)
		}
		return x / 2
	}
	return x
}

func cmpInt(mode string) func(a, b int) int {
	mag := isMag(mode)
	return func(a, b int) int {
		cmpCounter.Add(1)
		return sign3or(mag, rankOf(mode, a), rankOf(mode, b))
	}
}

// comparison by rank without counting (used by the harness itself)
func cmpIntQuiet(mode string, a, b int) int {
	ra, rb := rankOf(mode, a), rankOf(mode, b)
	switch {
	case ra < rb:
		return -1
	case ra > rb:
		return 1
	}
	return 0
}

// values of key-value containers are of a distinct type so that state identity can ignore them
type V int

func cmpV(mode string) func(a, b V) int {
	f := cmpInt(mode)
	return func(a, b V) int { return f(int(a), int(b)) }
}

// heap elements: distinguishable elements with equal priority
type PE struct {
	P  int `json:"p"`
	ID int `json:"id"`
}

func rankPE(mode string, x PE) int {
	switch baseCmp(mode) {
	case "prio":
		return x.P
	case "maxprio":
		return -x.P
	case "prioid":
		return x.P*1000 + x.ID
	}
	return x.P
}

func cmpPE(mode string) func(a, b PE) int {
	mag := isMag(mode)
	return func(a, b PE) int {
		cmpCounter.Add(1)
		return sign3or(mag, rankPE(mode, a), rankPE(mode, b))
	}
}

// ---------------------------------------------------------------------------------------------
// integers in the trace are clamped to +-2^30 (TLC integers are 32 bit)

const clampLim = 1 << 30

func clamp(i int) int {
	if i > clampLim {
		return clampLim
	}
	if i < -clampLim {
		return -clampLim
	}
	return i
}

func ints(xs []int) []int {
	if xs == nil {
		return []int{}
	}
	return xs
}

// ---------------------------------------------------------------------------------------------
// deep canonical serialisation by reflection (reads unexported fields, never writes)
//   - pointers are numbered in visiting order, so the text is independent of addresses
//   - slices are written up to their capacity (spare capacity is part of the state)
//   - maps are written in sorted order of their serialised keys
//   - values of type `mask` are written as "_" (state identity of maps ignores stored values)

type serializer struct {
	buf   []byte
	ids   map[uintptr]int
	mask  reflect.Type
	spare bool // also write the elements between len and cap (purity fingerprints)
	nocap bool // do not write slice capacities (state identity of pointer structures)
	addr  bool // write pointers, channels and functions with their addresses (see purityString)
}

// purityString: the bytes of a structure for a BEFORE / AFTER comparison inside one process (did this read-only call change
// anything?).  Pointers are written with their addresses - Go's collector does not move heap objects - so that the text of a
// map's entries, which are written in the order of their key texts, does not depend on Go's map iteration order even when keys
// or values are pointers to look-alike objects.  (State identity across replays, canon(), cannot use addresses.)
func purityString(x any) (s string) {
	defer func() {
		if r := recover(); r != nil {
			s = "!reflect:" + fmt.Sprint(r)
		}
	}()
	z := &serializer{ids: map[uintptr]int{}, spare: true, addr: true}
	z.walk(reflect.ValueOf(x), 0)
	return string(z.buf)
}

func deepString(x any, mask reflect.Type, spare, nocap bool) (s string) {
	defer func() {
		if r := recover(); r != nil {
			s = "!reflect:" + fmt.Sprint(r)
		}
	}()
	z := &serializer{ids: map[uintptr]int{}, mask: mask, spare: spare, nocap: nocap}
	z.walk(reflect.ValueOf(x), 0)
	return string(z.buf)
}

func (z *serializer) w(s string) { z.buf = append(z.buf, s...) }

func (z *serializer) walk(v reflect.Value, depth int) {
	if depth > 100000 {
		panic("too deep")
	}
	if !v.IsValid() {
		z.w("nil")
		return
	}
	if z.mask != nil && v.Type() == z.mask {
		z.w("_")
		return
	}
	switch v.Kind() {
	case reflect.Bool:
		if v.Bool() {
			z.w("T")
		} else {
			z.w("F")
		}
	case reflect.Int, reflect.Int8, reflect.Int16, reflect.Int32, reflect.Int64:
		z.buf = strconv.AppendInt(z.buf, v.Int(), 10)
	case reflect.Uint, reflect.Uint8, reflect.Uint16, reflect.Uint32, reflect.Uint64, reflect.Uintptr:
		z.buf = strconv.AppendUint(z.buf, v.Uint(), 10)
	case reflect.Float32, reflect.Float64:
		z.buf = strconv.AppendFloat(z.buf, v.Float(), 'g', -1, 64)
	case reflect.String:
		z.buf = strconv.AppendQuote(z.buf, v.String())
	case reflect.Ptr:
		if v.IsNil() {
			z.w("n")
			return
		}
		p := v.Pointer()
		if id, ok := z.ids[p]; ok {
			z.w("@")
			z.buf = strconv.AppendInt(z.buf, int64(id), 10)
			return
		}
		id := len(z.ids) + 1
		if z.addr {
			id = int(p)
		}
		z.ids[p] = id
		z.w("&")
		z.buf = strconv.AppendInt(z.buf, int64(id), 10)
		z.w("(")
		z.walk(v.Elem(), depth+1)
		z.w(")")
	case reflect.Struct:
		z.w("{")
		for i := 0; i < v.NumField(); i++ {
			if i > 0 {
				z.w(",")
			}
			z.walk(v.Field(i), depth+1)
		}
		z.w("}")
	case reflect.Slice:
		if v.IsNil() {
			z.w("nils")
			return
		}
		z.w("[")
		z.buf = strconv.AppendInt(z.buf, int64(v.Len()), 10)
		if !z.nocap {
			z.w("/")
			z.buf = strconv.AppendInt(z.buf, int64(v.Cap()), 10)
		}
		z.w(":")
		if v.Type().Elem().Size() == 0 { // zero-size elements carry no information (and there may be MaxInt of them)
			z.w("zs]")
			return
		}
		full := v
		if z.spare {
			full = v.Slice(0, v.Cap())
		}
		for i := 0; i < full.Len(); i++ {
			if i > 0 {
				z.w(",")
			}
			z.walk(full.Index(i), depth+1)
		}
		z.w("]")
	case reflect.Array:
		z.w("[")
		for i := 0; i < v.Len(); i++ {
			if i > 0 {
				z.w(",")
			}
			z.walk(v.Index(i), depth+1)
		}
		z.w("]")
	case reflect.Map:
		if v.IsNil() {
			z.w("nilm")
			return
		}
		// entries in the order of their serialised keys; pointers are numbered only while walking in THAT order, so
		// that the numbering (and the text) does not depend on Go's map iteration order even when values are pointers
		type kv struct {
			k    string
			key  reflect.Value
			elem reflect.Value
		}
		var ents []kv
		it := v.MapRange()
		for it.Next() {
			scratch := z.ids
			if !plainKind(v.Type().Key().Kind()) { // keys that may hold pointers: number them in a copy of the table
				scratch = make(map[uintptr]int, len(z.ids))
				for p, id := range z.ids {
					scratch[p] = id
				}
			}
			zk := &serializer{ids: scratch, mask: nil, spare: z.spare, nocap: z.nocap, addr: z.addr}
			zk.walk(it.Key(), depth+1)
			ents = append(ents, kv{string(zk.buf), it.Key(), it.Value()})
		}
		sort.SliceStable(ents, func(i, j int) bool { return ents[i].k < ents[j].k })
		// keys with the same text (NaN keys are different keys): order those entries by the text of their values
		for i := 0; i < len(ents); {
			k := i + 1
			for k < len(ents) && ents[k].k == ents[i].k {
				k++
			}
			if k-i > 1 {
				vt := make([]string, k-i)
				for t := i; t < k; t++ {
					scratch := make(map[uintptr]int, len(z.ids))
					for p, id := range z.ids {
						scratch[p] = id
					}
					zv := &serializer{ids: scratch, mask: z.mask, spare: z.spare, nocap: z.nocap, addr: z.addr}
					zv.walk(ents[t].elem, depth+1)
					vt[t-i] = string(zv.buf)
				}
				grp := ents[i:k]
				idx := make([]int, len(grp))
				for t := range idx {
					idx[t] = t
				}
				sort.SliceStable(idx, func(a, b int) bool { return vt[idx[a]] < vt[idx[b]] })
				cp := append([]kv{}, grp...)
				for t, o := range idx {
					grp[t] = cp[o]
				}
			}
			i = k
		}
		z.w("m{")
		for i, e := range ents {
			if i > 0 {
				z.w(",")
			}
			zk := &serializer{ids: z.ids, mask: nil, spare: z.spare, nocap: z.nocap, addr: z.addr}
			zk.walk(e.key, depth+1)
			z.buf = append(z.buf, zk.buf...)
			z.w(":")
			z.walk(e.elem, depth+1)
		}
		z.w("}")
	case reflect.Interface:
		if v.IsNil() {
			z.w("nili")
			return
		}
		z.walk(v.Elem(), depth+1)
	case reflect.Func, reflect.Chan, reflect.UnsafePointer:
		// identity, numbered like a pointer: two different channels must not look alike (they may be the keys of a table)
		if v.Kind() != reflect.UnsafePointer && v.IsNil() {
			z.w("nil" + v.Kind().String()[:1])
			return
		}
		p := v.Pointer()
		id, ok := z.ids[p]
		if !ok {
			id = len(z.ids) + 1
			if z.addr {
				id = int(p)
			}
			z.ids[p] = id
		}
		z.w(v.Kind().String()[:1] + "#")
		z.buf = strconv.AppendInt(z.buf, int64(id), 10)
	default:
		z.w("?")
	}
}

func plainKind(k reflect.Kind) bool {
	switch k {
	case reflect.Bool, reflect.Int, reflect.Int8, reflect.Int16, reflect.Int32, reflect.Int64, reflect.Uint, reflect.Uint8, reflect.Uint16,
		reflect.Uint32, reflect.Uint64, reflect.Uintptr, reflect.Float32, reflect.Float64, reflect.String:
		return true
	}
	return false
}

func fpOf(s string) string {
	h := fnv.New64a()
	h.Write([]byte(s))
	return strconv.FormatUint(h.Sum64(), 36)
}
