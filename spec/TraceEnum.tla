------------------------------- MODULE TraceEnum -------------------------------
(* Trace specification for the enumerable functions (family "enum", C14).       *)
(* Each event is self-contained: the receiver's iteration sequence (read with a *)
(* fresh iterator before the call), the function and family member, the         *)
(* callback log, the result, and the contents of receiver / result afterwards.  *)
EXTENDS AbsEnum, Generic, Json, IOUtils

Trace == ndJsonDeserialize(IOEnv.TRACE)
Prop  == IOEnv.PROP

VARIABLES l
vars == <<l>>

C14(e) ==
  /\ Completed(e)
  /\ LET kv == e.cfg.kv  seq == e.seq IN
     /\ CASE e.op = "Each"   -> e.log = seq                             \* exactly the iterator's pairs, in order, once each
          [] e.op = "Any"    -> e.ret = <<AnyRet(seq, e.p)>>
          [] e.op = "All"    -> e.ret = <<AllRet(seq, e.p)>>
          [] e.op = "Find"   -> e.ret = FindRet(seq, e.p, kv)
          [] e.op = "Select" -> e.hasres /\ e.res = SelectRes(seq, e.p, kv)
          \* Map: the abstract result (exact for comparators that tell all elements apart), and in every case the
          \* content of a fresh REAL container of the same configuration into which the harness inserted the same
          \* mapped elements one by one in iteration order ("as repeated Add / Put would")
          [] e.op = "Map"    -> /\ e.hasres /\ e.hasref /\ e.res = e.refres
                                /\ (e.cfg.cmp # "half" => e.res = MapRes(e.cfg, seq, e.mp))
     /\ e.recv = Content(seq, kv) /\ e.pure = TRUE                      \* the receiver is never modified
     /\ e.hasres => /\ e.recv_after = Content(seq, kv)                  \* ... not even by mutating the result
                    /\ e.res_after[1] = e.res_after[2]                  \* and the result not by mutating the receiver

Obl(p, e) ==
  CASE p = "C14" -> C14(e)
    [] p = "C17" -> Completed(e) /\ e.out = 0
    [] p = "C18" -> Completed(e) => e.pure = TRUE

Init == l = 1
Step ==
  /\ l <= Len(Trace)
  /\ IF Obl(Prop, Trace[l]) = TRUE THEN TRUE ELSE PrintT("REJECT|" \o ToString(l))
  /\ l' = l + 1
Spec == Init /\ [][Step]_vars
Accepted == TLCGet("stats").diameter - 1 = Len(Trace)
=============================================================================
