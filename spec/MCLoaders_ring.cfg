SPECIFICATION Spec
CONSTANTS
  Disc = "ring"
  ElemU = {0, 1, 2}
  MaxLen = 3
INVARIANTS LoadsAreOK SomeOutcome RoundTrip
CHECK_DEADLOCK FALSE
