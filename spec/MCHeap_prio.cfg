SPECIFICATION Spec
CONSTANTS
  Items <- ItemsDef
  CmpName = "prio"
INVARIANTS HeapOrdered
PROPERTIES Refines
VIEW View
CHECK_DEADLOCK FALSE
