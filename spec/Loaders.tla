------------------------------- MODULE Loaders -------------------------------
(* Implementation-shaped model of the */serialization.go files (as repaired by   *)
(* the fix: commits): what ToJSON writes (as a denotation: elements or <<key,    *)
(* value>> members in textual order) and what FromJSON does with a decoded       *)
(* input, statement by statement, per container kind:                            *)
(*   ArrayList            ToJSON = the elements (an empty list writes [])        *)
(*                        FromJSON: decode into a temporary, then replace        *)
(*   ArrayStack/ArrayQueue delegate to the array list (stack: bottom to top)     *)
(*   linked lists, queue  ToJSON = Values(); FromJSON: decode, Clear, Add(...)   *)
(*   LinkedListStack      ToJSON = list top to bottom; FromJSON: list.FromJSON   *)
(*   sets                 ToJSON = Values(); FromJSON: decode, Clear, Add(...)   *)
(*   CircularBuffer       ToJSON = Values(); FromJSON: decode, Clear, Enqueue... *)
(*   BinaryHeap / PQ      ToJSON = the backing list; FromJSON: load + heapify    *)
(*   maps and trees       ToJSON = a Go map (members sorted by encoding/json);   *)
(*                        FromJSON: decode into a Go map (last member wins),     *)
(*                        Clear, Put every member IN GO'S MAP ORDER (any order)  *)
(*   LinkedHashMap        ToJSON = members in iteration order; FromJSON: Put in  *)
(*                        the textual order of the (last occurrence of) names    *)
(*   bidi maps            as maps, with the bidi Put                             *)
(* A decoding error leaves everything as it was.  MCLoaders checks that every    *)
(* outcome satisfies AbsJSON!LoadOK (C12) and that Store then Load is the        *)
(* identity on well-formed contents (C11).                                       *)
EXTENDS AbsJSON, AbsEnum
RingEnq(s, c, v) == (IF Len(s) = c THEN Tail(s) ELSE s) \o <<v>>
Perms(s) == {[i \in DOMAIN s |-> s[f[i]]] : f \in {g \in [DOMAIN s -> DOMAIN s] : \A a, b \in DOMAIN s : g[a] = g[b] => a = b}}
\* ---- value containers ----
RingLoad(cap, ref) == LET F[i \in 0..Len(ref)] == IF i = 0 THEN <<>> ELSE RingEnq(F[i - 1], cap, ref[i]) IN F[Len(ref)]
\* heapify exactly as Heap.tla does it would need the comparator: the loaders model keeps the heap as a bag
LoadValues(cfg, ref) ==          \* the set of possible contents (in iteration order) after a successful load
  CASE cfg.disc = "seq"   -> {ref}
    [] cfg.disc = "stack" -> {ref, Rev(ref)}                     \* array stack: list = ref, Values() reversed; linked stack: list = ref
    [] cfg.disc = "ring"  -> {RingLoad(cfg.cap, ref)}
    [] cfg.disc = "heap"  -> {p \in Perms(ref) : TRUE}           \* some heap arrangement of exactly these elements
    [] cfg.disc = "unordered" -> {p \in Perms(AddAll([sorted |-> FALSE, linked |-> TRUE, cmp |-> "nat"], <<>>, ref)) : TRUE}
    [] cfg.disc \in {"linkedset", "sortedset"} -> {AddAll([sorted |-> cfg.disc = "sortedset", linked |-> cfg.disc = "linkedset", cmp |-> cfg.cmp], <<>>, ref)}
StoreValues(cfg, c) == c          \* Values() in iteration order (stacks: either direction, consistently with their loader)
\* ---- key-value containers ----
\* decoding into a Go map: one member per name, the last occurrence wins
Decoded(ref) == Graph(ref)
\* members ordered by the position of the last occurrence of their name (LinkedHashMap)
LastPos(ref, k) == LastIn({i \in DOMAIN ref : ref[i][1] = k})
TextOrder(ref) == SortSeq(SetToSeq(Decoded(ref)), LAMBDA a, b : LastPos(ref, a[1]) < LastPos(ref, b[1]))
mapcfg(cfg) == [sorted |-> cfg.sorted, cmp |-> cfg.cmp, linked |-> cfg.disc = "linkedmap", bidi |-> cfg.bidi,
                vsorted |-> FALSE, vcmp |-> "nat", kv |-> TRUE, disc |-> cfg.disc]
LoadPairsImpl(cfg, ref) ==
  IF cfg.disc = "linkedmap" THEN {PutAll(mapcfg(cfg), <<>>, TextOrder(ref))}
  ELSE LET res == {PutAll(mapcfg(cfg), <<>>, order) : order \in Perms(SetToSeq(Decoded(ref)))} IN
       IF cfg.sorted THEN res
       ELSE UNION {{p \in Perms(r) : TRUE} : r \in res}           \* hash kinds enumerate in any order
=============================================================================
