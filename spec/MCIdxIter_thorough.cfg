SPECIFICATION ISpec
CONSTANTS
  MaxLen = 6
  ElemU = {1, 2}
INVARIANT CursorInv
CHECK_DEADLOCK FALSE
