SPECIFICATION SimSpec
CONSTANTS
  Cap = 12
  Vals = {1, 2, 3}
  SimDepth = 120
INVARIANTS IndexInv FullIffSizeCap SizeAgrees Dump
CHECK_DEADLOCK FALSE
