SPECIFICATION Spec
CONSTANTS
  Cap = 3
  Vals = {1, 2, 3}
INVARIANT Fid
VIEW View
CHECK_DEADLOCK FALSE
