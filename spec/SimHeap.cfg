SPECIFICATION SimSpec
CONSTANTS
  Items <- BigItems
  CmpName = "prio"
  SimDepth = 80
INVARIANTS HeapOrdered Dump
CHECK_DEADLOCK FALSE
