------------------------------- MODULE TraceAlias -------------------------------
(* Trace specification for aliasing (family "alias", C16), all 21 kinds.         *)
(*   Scribble    : Values()/Keys() was called, every element of the returned     *)
(*                 slice and its spare capacity overwritten; before / after =    *)
(*                 container content                                             *)
(*   Mutate      : a slice was taken (snap0), the container mutated twice, the   *)
(*                 same slice read again (snap1)                                 *)
(*   ScribbleArg : a caller-owned slice with spare capacity was passed to a      *)
(*                 constructor / Add / Append / Prepend / Insert / Push and      *)
(*                 then overwritten; before = content right after the call       *)
(*   GetSorted   : containers.GetSortedValues / GetSortedValuesFunc              *)
EXTENDS AbsAlias, Generic, Json, IOUtils

Trace == ndJsonDeserialize(IOEnv.TRACE)
Prop  == IOEnv.PROP

VARIABLES l
vars == <<l>>

Unordered(cfg) == cfg.disc \in {"unordered"}
SameContent(cfg, a, b) == IF Unordered(cfg) THEN SameBag(a, b) ELSE a = b

C16(e) ==
  /\ Completed(e)
  /\ CASE e.op = "Scribble"    -> SameContent(e.cfg, e.after, e.before) /\ e.pure = TRUE
       [] e.op = "Mutate"      -> MutateFrame(e.snap0, e.snap1)
       [] e.op = "ScribbleArg" -> SameContent(e.cfg, e.after, e.before)
       [] e.op = "GetSorted"   -> /\ SortedOK(e.result, e.vals)
                                  /\ SameContent(e.cfg, e.after, e.before) /\ e.pure = TRUE

Obl(p, e) ==
  CASE p = "C16" -> C16(e)
    [] p = "C17" -> Completed(e) /\ e.out = 0
    [] p = "C18" -> (Completed(e) /\ e.op = "GetSorted") => e.pure = TRUE

Init == l = 1
Step ==
  /\ l <= Len(Trace)
  /\ IF Obl(Prop, Trace[l]) = TRUE THEN TRUE ELSE PrintT("REJECT|" \o ToString(l))
  /\ l' = l + 1
Spec == Init /\ [][Step]_vars
Accepted == TLCGet("stats").diameter - 1 = Len(Trace)
=============================================================================
