SPECIFICATION Spec
CONSTANTS
  ElemU = {0, 1}
  MaxLen = 2
  Aliasing = TRUE
INVARIANTS NoSharing
PROPERTIES ScribbleLeavesContainer MutateLeavesSnapshots
CHECK_DEADLOCK FALSE
