SPECIFICATION Spec
CONSTANTS
  Readers = {r1, r2, r3}
  Ops = {"Get", "Values", "Iterate"}
  Values = {"c1", "c2"}
INVARIANTS TypeOK ResultIsSequential
PROPERTIES ReadersPure
