------------------------------- MODULE AbsCursor -------------------------------
(* C08: an iterator is a cursor over positions -1..n of a fixed sequence.       *)
EXTENDS Common
\* predicate family shared with the Go harness (bound by name + parameters in the event)
Holds(p, idx, key, val) == CASE p.name = "true"   -> TRUE
                             [] p.name = "false"  -> FALSE
                             [] p.name = "keymod" -> key % p.m = p.r
                             [] p.name = "valmod" -> val % p.m = p.r
                             [] p.name = "index"  -> key = p.i     \* key = index for index iterators
                             [] p.name = "sum3"   -> (key + val) % p.m = p.r
Inside(seq, pos) == pos >= 0 /\ pos < Len(seq)
NextPos(seq, pos) == IF pos < Len(seq) THEN pos + 1 ELSE Len(seq)     \* saturates at n
PrevPos(seq, pos) == IF pos >= 0 THEN pos - 1 ELSE -1                  \* saturates at -1
\* seq is a sequence of <<key, value>> (key = index for index iterators).  NextTo stops on the first position after the
\* cursor whose element satisfies p (n if none), PrevTo on the last one before it (-1 if none).  Written with sets rather than
\* by recursion so that TLC evaluates them on sequences of thousands of elements (MinOf finds its witness first: TLC
\* enumerates a set of integers in ascending order).
MinOf(S) == CHOOSE x \in S : \A y \in S : x <= y
MaxOf(S) == 0 - MinOf({0 - x : x \in S})
NextToPos(seq, pos, p) ==
  LET I == {q \in NextPos(seq, pos) .. (Len(seq) - 1) : Holds(p, q, seq[q+1][1], seq[q+1][2])} IN
  IF I = {} THEN Len(seq) ELSE MinOf(I)
PrevToPos(seq, pos, p) ==
  LET I == {q \in 0 .. PrevPos(seq, pos) : Holds(p, q, seq[q+1][1], seq[q+1][2])} IN
  IF I = {} THEN -1 ELSE MaxOf(I)
\* new position of every call; moves return Inside(newpos)
Move(seq, pos, op, p) ==
  CASE op = "Next"   -> NextPos(seq, pos)
    [] op = "Prev"   -> PrevPos(seq, pos)
    [] op = "Begin"  -> -1
    [] op = "End"    -> Len(seq)
    [] op = "First"  -> NextPos(seq, -1)
    [] op = "Last"   -> PrevPos(seq, Len(seq))
    [] op = "NextTo" -> NextToPos(seq, pos, p)
    [] op = "PrevTo" -> PrevToPos(seq, pos, p)
Returns(op) == op \notin {"Begin", "End"}
\* obligation on one iterator event e = [op, p, ret, idx, key, val, hasIndex]
CursorOK(seq, pos, e) ==
  LET q == Move(seq, pos, e.op, e.p) IN
  /\ Returns(e.op) => e.ret = Inside(seq, q)
  /\ (Returns(e.op) /\ Inside(seq, q)) =>
        /\ e.key = seq[q+1][1] /\ e.val = seq[q+1][2]
        /\ (e.hasIndex => e.idx = q)
=============================================================================
