SPECIFICATION Spec
CONSTANTS
  KeyU = {1, 2, 3, 4, 5, 6, 7}
  ValU = {1}
  MaxNodes = 7
INVARIANT Fid
ACTION_CONSTRAINT FidEdge
VIEW View
CHECK_DEADLOCK FALSE
