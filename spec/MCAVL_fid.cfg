SPECIFICATION Spec
CONSTANTS
  KeyU = {1, 2, 3, 4, 5, 6, 7}
  ValU = {1}
  MaxNodes = 7
INVARIANT Fid
VIEW View
CHECK_DEADLOCK FALSE
