------------------------------- MODULE MCMapHist -------------------------------
(* C01 at the level of its statement: the abstract map machine of AbsMap (state = *)
(* entries in enumeration order, post-states drawn from everything PutAllowed /   *)
(* RemoveAllowed admit) against the HISTORY reading of the property: Get(k) =     *)
(* (v, true) exactly when the most recent Put(k, v) has not been followed by      *)
(* Remove(k) or Clear.  `live` is the history variable.  Checked for the hash,    *)
(* sorted (natural / coarsened comparator) and insertion-ordered kinds.           *)
EXTENDS AbsMap
CONSTANTS KeyU, ValU, Kind
VARIABLES s, live
vars == <<s, live>>
cfg == [sorted |-> Kind \in {"sorted", "half"}, cmp |-> IF Kind = "half" THEN "half" ELSE "nat",
        linked |-> Kind = "linked", bidi |-> FALSE, vsorted |-> FALSE, vcmp |-> "nat"]
None == -1
\* keys the comparator cannot tell apart are one key: the history is kept per equivalence class
Cls(k) == IF cfg.sorted THEN Rank(cfg.cmp, k) ELSE k
Classes == {Cls(k) : k \in KeyU}
Pairs == KeyU \X ValU
Cands == UNION {[1..n -> Pairs] : n \in 0..Cardinality(Classes)}
Init == s = <<>> /\ live = [c \in Classes |-> None]
PutA(k, v) == /\ \E t \in Cands : PutAllowed(cfg, s, k, v, t) /\ (cfg.sorted => SortedOK(cfg, t)) /\ s' = t
              /\ live' = [live EXCEPT ![Cls(k)] = v]
RemoveA(k) == /\ \E t \in Cands : RemoveAllowed(cfg, s, k, t) /\ s' = t
              /\ live' = [live EXCEPT ![Cls(k)] = None]
ClearA == s' = <<>> /\ live' = [c \in Classes |-> None]
Next == (\E k \in KeyU, v \in ValU : PutA(k, v)) \/ (\E k \in KeyU : RemoveA(k)) \/ ClearA
Spec == Init /\ [][Next]_vars
\* the statement of C01
GetIsHistory == \A k \in KeyU : GetRet(cfg, s, k, 0) = IF live[Cls(k)] = None THEN <<0, FALSE>> ELSE <<live[Cls(k)], TRUE>>
SizeIsLive   == Len(s) = Cardinality({c \in Classes : live[c] # None})
EachOnce     == OneKeyEach(cfg, s)
SortedInv    == SortedOK(cfg, s)
\* removing an absent key changes nothing
RemoveAbsent == [][\A k \in KeyU : (Hits(cfg, s, k) = {} /\ RemoveAllowed(cfg, s, k, s')) => s' = s]_vars
=============================================================================
