SPECIFICATION SimSpec
CONSTANTS
  KeyU = {1, 2, 3, 4, 5, 6, 7, 8, 9, 10, 11, 12, 13, 14, 15, 16, 17, 18, 19, 20, 21, 22, 23, 24, 25, 26, 27, 28, 29, 30, 31, 32, 33, 34, 35, 36, 37, 38, 39, 40, 41, 42, 43, 44, 45, 46, 47, 48, 49, 50, 51, 52, 53, 54, 55, 56, 57, 58, 59, 60, 61, 62, 63, 64, 65, 66, 67, 68, 69, 70, 71, 72, 73, 74, 75, 76, 77, 78, 79, 80, 81, 82, 83, 84, 85, 86, 87, 88, 89, 90, 91, 92, 93, 94, 95, 96}
  ValU = {1}
  MaxNodes = 96
  SimDepth = 200
  M = 12
INVARIANTS BTInv Sorted MinMaxOK ShapeInv Dump
CHECK_DEADLOCK FALSE
