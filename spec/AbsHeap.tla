------------------------------- MODULE AbsHeap -------------------------------
(* C06: heap / priority queue = bag of distinguishable elements + comparator.  *)
(* State = the bag, represented by any sequence listing it (Values()).         *)
EXTENDS Common
IsMin(c, bag, x) == (\E i \in DOMAIN bag : bag[i] = x) /\ \A i \in DOMAIN bag : Cmp(c, bag[i], x) >= 0
PushAllowed(c, bag, vs, post) == SameBag(post, bag \o vs)
PopAllowed(c, bag, ret, post, zero) ==
  IF bag = <<>> THEN ret = <<zero, FALSE>> /\ post = <<>>
  ELSE /\ ret[2] /\ IsMin(c, bag, ret[1])                       \* no contained element precedes it
       /\ SameBag(post \o <<ret[1]>>, bag)                      \* exactly that one element leaves
PeekOK(c, bag, ret, zero) == IF bag = <<>> THEN ret = <<zero, FALSE>> ELSE ret[2] /\ IsMin(c, bag, ret[1])
ValuesOK(c, bag, values, peek) == SameBag(values, bag) /\ (bag # <<>> => values[1] = peek[1])
LoadAllowed(c, denot, post) == SameBag(post, denot)            \* successful FromJSON: contents = input
=============================================================================
