------------------------------- MODULE TraceAlg -------------------------------
(* Trace specification for set algebra (family "alg", C13).  One event is one   *)
(* call r := a.Intersection/Union/Difference(b) on two REAL sets built by       *)
(* histories, with the observations of a, b before (a0, b0) and of a, b, r      *)
(* after (a1, b1, r1), followed by a list of mutations: each of the three       *)
(* objects is mutated in turn (Add, Remove, Clear) and all three are observed.  *)
EXTENDS AbsSet, Generic, Json, IOUtils

Trace == ndJsonDeserialize(IOEnv.TRACE)
Prop  == IOEnv.PROP

VARIABLES l
vars == <<l>>

MembersEq(cfg, s, t) == KeySet(cfg, s) = KeySet(cfg, t)
\* an observation of a set object is internally consistent
ObsWF(cfg, o) ==
  /\ o.size = Len(o.vals)
  /\ NoDupKeys(cfg, o.vals)
  /\ LET K == KeySet(cfg, o.vals) IN \A i \in DOMAIN o.has : o.has[i][2] = (KeyOf(cfg, o.has[i][1]) \in K)
SameObj(cfg, a, b) == MembersEq(cfg, a.vals, b.vals) /\ a.size = b.size /\ a.has = b.has
                      /\ ((cfg.sorted \/ cfg.linked) => a.vals = b.vals)

ResultOK(cfg, op, a, b, r) ==
  CASE op = "Intersection" -> InterOK(cfg, a, b, r)
    [] op = "Union"        -> UnionOK(cfg, a, b, r)
    [] op = "Difference"   -> DiffOK(cfg, a, b, r)

\* abstract effect of one follow-up mutation on the members of the mutated object
MutPost(cfg, s, m) ==
  CASE m.op = "Add"    -> AddAll(cfg, s, m.vs)
    [] m.op = "Remove" -> RemoveAll(cfg, s, m.vs)
    [] m.op = "Clear"  -> <<>>

RECURSIVE Independent(_, _, _, _, _, _)
\* walk the mutation list: only the mutated object changes (a and b may be the same object)
Independent(cfg, alias, muts, a, b, r) ==
  IF muts = <<>> THEN TRUE
  ELSE LET m == Head(muts)
           ta == IF m.who = 1 \/ (alias /\ m.who = 2) THEN MutPost(cfg, a, m) ELSE a
           tb == IF m.who = 2 \/ (alias /\ m.who = 1) THEN MutPost(cfg, b, m) ELSE b
           tr == IF m.who = 3 THEN MutPost(cfg, r, m) ELSE r
       IN /\ m.panic = FALSE
          /\ MembersEq(cfg, m.a.vals, ta) /\ Len(m.a.vals) = Len(ta) /\ ObsWF(cfg, m.a)
          /\ MembersEq(cfg, m.b.vals, tb) /\ Len(m.b.vals) = Len(tb) /\ ObsWF(cfg, m.b)
          /\ MembersEq(cfg, m.r.vals, tr) /\ Len(m.r.vals) = Len(tr) /\ ObsWF(cfg, m.r)
          /\ Independent(cfg, alias, Tail(muts), m.a.vals, m.b.vals, m.r.vals)

C13(e) ==
  /\ Completed(e)
  /\ LET cfg == e.cfg IN
     /\ ResultOK(cfg, e.op, e.a0.vals, e.b0.vals, e.r1.vals)         \* exactly the right members
     /\ ResultWF(cfg, e.r1.vals) /\ ObsWF(cfg, e.r1)                  \* each once; TreeSet result sorted by the operands' comparator
     /\ SameObj(cfg, e.a1, e.a0) /\ SameObj(cfg, e.b1, e.b0)          \* operands unchanged
     /\ e.pure = TRUE                                                 \* ... down to their representation
     /\ Independent(cfg, e.alias, e.mut, e.a1.vals, e.b1.vals, e.r1.vals)

Obl(p, e) ==
  CASE p = "C13" -> C13(e)
    [] p = "C17" -> Completed(e) /\ e.out = 0 /\ \A i \in DOMAIN e.mut : e.mut[i].panic = FALSE   \* incl. the follow-up calls on a, b, r
    [] p = "C18" -> Completed(e) => (e.pure = TRUE /\ SameObj(e.cfg, e.a1, e.a0) /\ SameObj(e.cfg, e.b1, e.b0))

Init == l = 1
Step ==
  /\ l <= Len(Trace)
  /\ IF Obl(Prop, Trace[l]) = TRUE THEN TRUE ELSE PrintT("REJECT|" \o ToString(l))
  /\ l' = l + 1
Spec == Init /\ [][Step]_vars
Accepted == TLCGet("stats").diameter - 1 = Len(Trace)
=============================================================================
