------------------------------- MODULE MCAlias -------------------------------
(* C16: the abstract aliasing machine.  A container (sequence over a small     *)
(* universe) and a registry of caller-owned slices, each a reference to a      *)
(* memory cell.  Values() / Keys() allocate a NEW cell and copy (Snapshot);    *)
(* constructors / Add / Insert / Push copy out of the argument cell (HandIn).  *)
(* The negative variant (Aliasing = TRUE) hands out the container's own cell,  *)
(* as an implementation returning its backing array would: TLC must reject it  *)
(* (bin/selftest checks that it does) - the vacuity guard of this property.    *)
EXTENDS AbsAlias
CONSTANTS ElemU, MaxLen, Aliasing
VARIABLES mem, cont, regs, kind
\* mem : cell -> sequence ; cont = the container's cell ; regs = set of caller-owned cells
vars == <<mem, cont, regs, kind>>
Cells == 1..4
Free == Cells \ ({cont} \cup regs)
Seqs == UNION {[1..n -> ElemU] : n \in 0..MaxLen}
Init == mem = [c \in Cells |-> <<>>] /\ cont = 1 /\ regs = {} /\ kind = "init"
Snapshot == /\ Free # {} /\ LET c == IF Aliasing THEN cont ELSE CHOOSE x \in Free : TRUE IN
                 /\ mem' = [mem EXCEPT ![c] = mem[cont]] /\ regs' = regs \cup {c}
            /\ kind' = "snapshot" /\ UNCHANGED cont
Scribble == \E c \in regs, s \in Seqs : mem' = [mem EXCEPT ![c] = s] /\ kind' = "scribble" /\ UNCHANGED <<cont, regs>>
Mutate   == \E s \in Seqs : mem' = [mem EXCEPT ![cont] = s] /\ kind' = "mutate" /\ UNCHANGED <<cont, regs>>
HandIn   == \E c \in regs : Len(mem[cont] \o mem[c]) <= MaxLen /\ mem' = [mem EXCEPT ![cont] = mem[cont] \o mem[c]]
                            /\ kind' = "handin" /\ UNCHANGED <<cont, regs>>
Next == Snapshot \/ Scribble \/ Mutate \/ HandIn
Spec == Init /\ [][Next]_vars
\* frame rules (AbsAlias)
ScribbleLeavesContainer == [][kind' = "scribble" => ScribbleFrame(mem[cont], mem'[cont])]_vars
MutateLeavesSnapshots   == [][kind' = "mutate" => \A c \in regs \ {cont} : MutateFrame(mem[c], mem'[c])]_vars
NoSharing == cont \notin regs                          \* no handed-out slice is the container's own memory
=============================================================================
