------------------------------- MODULE MCLinkedHash -------------------------------
(* C09 / C01 / C04: table and ordering stay in step on every path, and every step  *)
(* is a step of the insertion-ordered abstract map / set.                          *)
EXTENDS LinkedHash, AbsMap, AbsSet
cfgL == [sorted |-> FALSE, cmp |-> "nat", linked |-> TRUE, bidi |-> FALSE, vsorted |-> FALSE, vcmp |-> "nat"]
\* table and order list agree: same keys, each once
InStep == /\ {ordering[i] : i \in DOMAIN ordering} = DOMAIN table
          /\ \A i, j \in DOMAIN ordering : ordering[i] = ordering[j] => i = j
          /\ Len(ordering) = Cardinality(DOMAIN table)
E == Entries(table, ordering)
Refines ==
  [][ LET s == Entries(table, ordering)  t == Entries(table', ordering') IN
      CASE last'.op = "Put"       -> PutAllowed(cfgL, s, last'.k, last'.v, t)
        [] last'.op = "Remove"    -> RemoveAllowed(cfgL, s, last'.k, t)
        [] last'.op = "Add"       -> Keys(t) = AddAll(cfgL, Keys(s), last'.ks)       \* LinkedHashSet.Add(items...)
        [] last'.op = "RemoveAll" -> Keys(t) = RemoveAll(cfgL, Keys(s), last'.ks)
        [] last'.op = "Clear"     -> t = <<>>
        [] OTHER -> TRUE ]_vars
View == <<table, ordering>>
=============================================================================
