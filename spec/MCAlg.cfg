SPECIFICATION Spec
CONSTANTS
  U = {0, 1, 2, 3}
INVARIANTS Exact
PROPERTIES OperandsUnchanged
CHECK_DEADLOCK FALSE
