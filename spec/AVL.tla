------------------------------- MODULE AVL -------------------------------
(* Implementation-shaped (pointer-level) model of trees/avltree/avltree.go:    *)
(* nodes with key, value, balance factor b, Children[0..1], Parent; the         *)
(* recursive put / remove / removeMin over **Node slots, putFix, removeFix,     *)
(* singlerot, doublerot, rotate - each named after the Go function it           *)
(* transcribes - and GetNode, Floor, Ceiling, Left, Right.                      *)
(* The reachable canonical states over 8 keys were compared with the real       *)
(* code's (1017 states, identical).                                             *)
EXTENDS Integers, Sequences, FiniteSets, TLC
CONSTANTS KeyU, ValU, MaxNodes
VARIABLES T, last     \* T = [root, n : id -> [key, val, b, c0, c1, parent]] ; last = the call just made (output only)
vars == <<T, last>>
Nil == 0
Ids == 1..MaxNodes
Empty == [root |-> Nil, n |-> <<>>]
Dom(t) == DOMAIN t.n
FreeId(t) == CHOOSE i \in Ids : i \notin Dom(t) /\ \A j \in Ids : j < i => j \in Dom(t)
Child(t, x, a) == IF a = 0 THEN t.n[x].c0 ELSE t.n[x].c1
SetChild(t, x, a, v) == IF a = 0 THEN [t EXCEPT !.n[x].c0 = v] ELSE [t EXCEPT !.n[x].c1 = v]
SetB(t, x, v) == [t EXCEPT !.n[x].b = v]
SetParent(t, x, v) == [t EXCEPT !.n[x].parent = v]
\* a "slot" models the **Node argument: <<Nil, 0>> is &tree.Root, <<p, a>> is &p.Children[a]
Deref(t, s) == IF s[1] = Nil THEN t.root ELSE Child(t, s[1], s[2])
Assign(t, s, v) == IF s[1] = Nil THEN [t EXCEPT !.root = v] ELSE SetChild(t, s[1], s[2], v)
Idx(c) == (c + 1) \div 2

\* rotate(c, s) returns <<t', r>>
Rotate(t, c, s) ==
  LET a == Idx(c)
      r == Child(t, s, a)
      ra == Child(t, r, 1 - a)
      t1 == SetChild(t, s, a, ra)
      t2 == IF ra # Nil THEN SetParent(t1, ra, s) ELSE t1
      t3 == SetChild(t2, r, 1 - a, s)
      t4 == SetParent(t3, r, t3.n[s].parent)
      t5 == SetParent(t4, s, r)
  IN <<t5, r>>
SingleRot(t, c, s) ==
  LET t1 == SetB(t, s, 0)
      rr == Rotate(t1, c, s)
  IN <<SetB(rr[1], rr[2], 0), rr[2]>>
DoubleRot(t, c, s) ==
  LET a == Idx(c)
      r == Child(t, s, a)
      r1 == Rotate(t, -c, r)
      t1 == SetChild(r1[1], s, a, r1[2])
      r2 == Rotate(t1, c, s)
      t2 == r2[1]
      p == r2[2]
      pb == t2.n[p].b
      t3 == IF pb = c THEN SetB(SetB(t2, s, -c), r, 0)
            ELSE IF pb = -c THEN SetB(SetB(t2, s, 0), r, c)
            ELSE SetB(SetB(t2, s, 0), r, 0)
  IN <<SetB(t3, p, 0), p>>

\* putFix(c, slot) returns <<t', fix>>
PutFix(t, c, slot) ==
  LET s == Deref(t, slot) IN
  IF t.n[s].b = 0 THEN <<SetB(t, s, c), TRUE>>
  ELSE IF t.n[s].b = -c THEN <<SetB(t, s, 0), FALSE>>
  ELSE LET rr == IF t.n[Child(t, s, Idx(c))].b = c THEN SingleRot(t, c, s) ELSE DoubleRot(t, c, s)
       IN <<Assign(rr[1], slot, rr[2]), FALSE>>
RemoveFix(t, c, slot) ==
  LET s == Deref(t, slot) IN
  IF t.n[s].b = 0 THEN <<SetB(t, s, c), FALSE>>
  ELSE IF t.n[s].b = -c THEN <<SetB(t, s, 0), TRUE>>
  ELSE LET a == Idx(c) IN
       IF t.n[Child(t, s, a)].b = 0
       THEN LET rr == Rotate(t, c, s) IN <<Assign(SetB(rr[1], rr[2], -c), slot, rr[2]), FALSE>>
       ELSE LET rr == IF t.n[Child(t, s, a)].b = c THEN SingleRot(t, c, s) ELSE DoubleRot(t, c, s)
            IN <<Assign(rr[1], slot, rr[2]), TRUE>>

RECURSIVE PutR(_, _, _, _, _)
PutR(t, k, v, p, slot) ==
  LET q == Deref(t, slot) IN
  IF q = Nil THEN LET id == FreeId(t)
                      t1 == [t EXCEPT !.n = t.n @@ (id :> [key |-> k, val |-> v, b |-> 0, c0 |-> Nil, c1 |-> Nil, parent |-> p])]
                  IN <<Assign(t1, slot, id), TRUE>>
  ELSE IF k = t.n[q].key THEN <<[t EXCEPT !.n[q].key = k, !.n[q].val = v], FALSE>>      \* q.Key = key; q.Value = value
  ELSE LET c == IF k < t.n[q].key THEN -1 ELSE 1
           r == PutR(t, k, v, q, <<q, Idx(c)>>)
       IN IF r[2] THEN PutFix(r[1], c, slot) ELSE <<r[1], FALSE>>

Free(t, x) == [t EXCEPT !.n = [i \in (DOMAIN t.n) \ {x} |-> t.n[i]]]
\* removeMin(slot) returns <<t', fix, <<minKey, minVal>> >>
RECURSIVE RemoveMin(_, _)
RemoveMin(t, slot) ==
  LET q == Deref(t, slot) IN
  IF t.n[q].c0 = Nil
  THEN LET c1 == t.n[q].c1
           t1 == IF c1 # Nil THEN SetParent(t, c1, t.n[q].parent) ELSE t
       IN <<Free(Assign(t1, slot, c1), q), TRUE, <<t.n[q].key, t.n[q].val>> >>
  ELSE LET r == RemoveMin(t, <<q, 0>>)
       IN IF r[2] THEN LET f == RemoveFix(r[1], 1, slot) IN <<f[1], f[2], r[3]>> ELSE <<r[1], FALSE, r[3]>>
RECURSIVE RemoveR(_, _, _)
RemoveR(t, k, slot) ==
  LET q == Deref(t, slot) IN
  IF q = Nil THEN <<t, FALSE>>
  ELSE IF k = t.n[q].key
  THEN IF t.n[q].c1 = Nil
       THEN LET c0 == t.n[q].c0
                t1 == IF c0 # Nil THEN SetParent(t, c0, t.n[q].parent) ELSE t
            IN <<Free(Assign(t1, slot, c0), q), TRUE>>
       ELSE LET r == RemoveMin(t, <<q, 1>>)
                t1 == [r[1] EXCEPT !.n[q].key = r[3][1], !.n[q].val = r[3][2]]               \* q.Key = minKey; q.Value = minVal
            IN IF r[2] THEN RemoveFix(t1, -1, slot) ELSE <<t1, FALSE>>
  ELSE LET c == IF k < t.n[q].key THEN -1 ELSE 1
           r == RemoveR(t, k, <<q, Idx(c)>>)
       IN IF r[2] THEN RemoveFix(r[1], -c, slot) ELSE <<r[1], FALSE>>

\* comparator calls of one descent for key k (put, remove and GetNode compare once per level)
RECURSIVE DescCmps(_, _, _)
DescCmps(t, x, k) == IF x = Nil THEN 0 ELSE IF k = t.n[x].key THEN 1
                     ELSE 1 + DescCmps(t, IF k < t.n[x].key THEN t.n[x].c0 ELSE t.n[x].c1, k)
RECURSIVE GetN(_, _, _), FloorT(_, _, _, _), CeilingT(_, _, _, _), Bottom(_, _, _)
GetN(t, x, k) == IF x = Nil THEN <<0, FALSE>> ELSE IF k = t.n[x].key THEN <<t.n[x].val, TRUE>>
                 ELSE GetN(t, IF k < t.n[x].key THEN t.n[x].c0 ELSE t.n[x].c1, k)
FloorT(t, x, k, best) ==
  IF x = Nil THEN (IF best = Nil THEN <<0, FALSE>> ELSE <<t.n[best].key, TRUE>>)
  ELSE IF k = t.n[x].key THEN <<t.n[x].key, TRUE>>
  ELSE IF k < t.n[x].key THEN FloorT(t, t.n[x].c0, k, best) ELSE FloorT(t, t.n[x].c1, k, x)
CeilingT(t, x, k, best) ==
  IF x = Nil THEN (IF best = Nil THEN <<0, FALSE>> ELSE <<t.n[best].key, TRUE>>)
  ELSE IF k = t.n[x].key THEN <<t.n[x].key, TRUE>>
  ELSE IF k < t.n[x].key THEN CeilingT(t, t.n[x].c0, k, x) ELSE CeilingT(t, t.n[x].c1, k, best)
Bottom(t, x, d) == IF x = Nil THEN Nil ELSE IF Child(t, x, d) = Nil THEN x ELSE Bottom(t, Child(t, x, d), d)   \* tree.bottom(d)

Size(t) == Cardinality(Dom(t))
Init == T = Empty /\ last = [op |-> "New", k |-> 0, v |-> 0, cmps |-> 0, n |-> 0]
PutA(k, v) == T' = PutR(T, k, v, Nil, <<Nil, 0>>)[1] /\ last' = [op |-> "Put", k |-> k, v |-> v, cmps |-> DescCmps(T, T.root, k), n |-> Size(T)]
RemoveA(k) == T' = RemoveR(T, k, <<Nil, 0>>)[1] /\ last' = [op |-> "Remove", k |-> k, v |-> 0, cmps |-> DescCmps(T, T.root, k), n |-> Size(T)]
GetA(k)    == T' = T /\ last' = [op |-> "Get", k |-> k, v |-> 0, cmps |-> DescCmps(T, T.root, k), n |-> Size(T)]
ClearA     == T' = Empty /\ last' = [op |-> "Clear", k |-> 0, v |-> 0, cmps |-> 0, n |-> Size(T)]
Next == (\E k \in KeyU, v \in ValU : PutA(k, v)) \/ (\E k \in KeyU : RemoveA(k) \/ GetA(k)) \/ ClearA
Spec == Init /\ [][Next]_vars

RECURSIVE Canon(_, _)
Canon(t, x) == IF x = Nil THEN <<>> ELSE <<t.n[x].key, t.n[x].val, t.n[x].b, Canon(t, t.n[x].c0), Canon(t, t.n[x].c1)>>
View == Canon(T, T.root)
RECURSIVE H(_, _)
H(t, x) == IF x = Nil THEN 0 ELSE LET l == H(t, t.n[x].c0) r == H(t, t.n[x].c1) IN 1 + (IF l > r THEN l ELSE r)
RECURSIVE InOrder(_, _)
InOrder(t, x) == IF x = Nil THEN <<>> ELSE InOrder(t, t.n[x].c0) \o << <<t.n[x].key, t.n[x].val>> >> \o InOrder(t, t.n[x].c1)
t_b(x) == T.n[x].b
\* the AVL invariants of the representation
AVLInv == /\ \A x \in Dom(T) : /\ t_b(x) = H(T, T.n[x].c1) - H(T, T.n[x].c0)
                                /\ t_b(x) \in {-1, 0, 1}
                                /\ (T.n[x].c0 # Nil => T.n[T.n[x].c0].parent = x)
                                /\ (T.n[x].c1 # Nil => T.n[T.n[x].c1].parent = x)
          /\ Len(InOrder(T, T.root)) = Cardinality(Dom(T))
          /\ (T.root # Nil => T.n[T.root].parent = Nil)
=============================================================================
