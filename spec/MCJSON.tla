------------------------------- MODULE MCJSON -------------------------------
(* C11 / C12 on the abstract level, for every ordering discipline: a machine   *)
(* whose only actions are loads.  A successful load moves to ANY content that  *)
(* AbsJSON!LoadOK admits for the input's reference decoding, a failing load    *)
(* changes nothing.  Checked: the content stays well-formed for its kind, a    *)
(* load never depends on the prior content (no prior element survives), and    *)
(* storing a well-formed content in iteration order and loading it again gives *)
(* the same content (round trip).                                              *)
EXTENDS AbsJSON
CONSTANTS Disc, ElemU, MaxLen
VARIABLES content, lastref, ok
vars == <<content, lastref, ok>>
kv == Disc \in {"unorderedmap", "sortedmap", "linkedmap", "unorderedbidi", "sortedbidi"}
cfg == [kv |-> kv, cmp |-> "nat", cap |-> 2,
        disc |-> CASE Disc = "unorderedmap" -> "unordered" [] Disc = "unorderedbidi" -> "unordered" [] OTHER -> Disc,
        sorted |-> Disc \in {"sortedmap", "sortedbidi"}, bidi |-> Disc \in {"unorderedbidi", "sortedbidi"}]
Atom == IF kv THEN ElemU \X ElemU ELSE ElemU
Seqs == UNION {[1..n -> Atom] : n \in 0..MaxLen}
Init == content = <<>> /\ lastref = <<>> /\ ok = TRUE
LoadSucceeds == \E ref \in Seqs, post \in Seqs :
                  LoadOK(cfg, ref, post) /\ content' = post /\ lastref' = ref /\ ok' = TRUE
LoadFails == UNCHANGED content /\ ok' = FALSE /\ UNCHANGED lastref                   \* atomic on error
Next == LoadSucceeds \/ LoadFails
Spec == Init /\ [][Next]_vars
Sound == ContentWF(cfg, content)
\* the content after a successful load is determined by the input alone
NoSurvivor == ok => LoadOK(cfg, lastref, content)
\* every input has an outcome (LoadOK is satisfiable), and a well-formed content round-trips
Satisfiable == \A ref \in Seqs : \E post \in Seqs : LoadOK(cfg, ref, post)
RoundTrip == ContentWF(cfg, content) => (LoadOK(cfg, content, content) \/ (cfg.disc = "ring" /\ Len(content) > cfg.cap))
=============================================================================
