SPECIFICATION Spec
CONSTANTS
  MaxLen = 4
  ElemU = {0, 1, 2}
INVARIANTS Laws MapLaws
CHECK_DEADLOCK FALSE
