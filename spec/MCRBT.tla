------------------------------- MODULE MCRBT -------------------------------
(* Bounded model checking of the red-black tree model.                        *)
(*   C01  every step refines the abstract map (AbsMap)                        *)
(*   C02  in-order walk strictly ascending; Floor / Ceiling / Left / Right    *)
(*        descents agree with their abstract definitions for every probe      *)
(*   C07  shape predicates of Shape.tla hold in every reachable state and the *)
(*        comparator calls of every Get / Put / Remove respect the bound      *)
(*   C15  cached size = number of nodes (Size(T) is the node count here)      *)
EXTENDS RBT, AbsMap, Shape, Json
cfgT == [sorted |-> TRUE, cmp |-> "nat", linked |-> FALSE, bidi |-> FALSE, vsorted |-> FALSE, vcmp |-> "nat"]
E(t) == InOrder(t, t.root)
Refines ==
  [][ LET s == E(T)  t == E(T') IN
      CASE last'.op = "Put"    -> PutAllowed(cfgT, s, last'.k, last'.v, t)
        [] last'.op = "Remove" -> RemoveAllowed(cfgT, s, last'.k, t)
        [] last'.op = "Clear"  -> t = <<>>
        [] last'.op = "Get"    -> t = s
        [] OTHER -> TRUE ]_vars
Sorted == SortedOK(cfgT, E(T))
Probes == (CHOOSE m \in KeyU : \A k \in KeyU : m <= k) - 1 .. (CHOOSE m \in KeyU : \A k \in KeyU : m >= k) + 1
NavOK == \A p \in Probes :
           /\ FloorOK(cfgT, E(T), p, FloorT(T, T.root, p, Nil))
           /\ CeilingOK(cfgT, E(T), p, CeilingT(T, T.root, p, Nil))
           /\ GetT(T, p) = GetRet(cfgT, E(T), p, 0)
MinMaxOK == /\ MinOK(cfgT, E(T), IF T.root = Nil THEN <<0, FALSE>> ELSE <<T.n[LeftMost(T, T.root)].key, TRUE>>)
            /\ MaxOK(cfgT, E(T), IF T.root = Nil THEN <<0, FALSE>> ELSE <<T.n[RightMost(T, T.root)].key, TRUE>>)
\* the exported structure as the harness logs it: pre-order sequence of <<key, left, right, parent>>
RECURSIVE Pre(_, _)
Pre(t, x) == IF x = Nil THEN <<>> ELSE <<x>> \o Pre(t, Left(t, x)) \o Pre(t, Right(t, x))
Flat(t) == LET ord == Pre(t, t.root)
               ix(x) == IF x = Nil THEN 0 ELSE CHOOSE i \in DOMAIN ord : ord[i] = x
           IN [i \in DOMAIN ord |-> <<t.n[ord[i]].key, ix(Left(t, ord[i])), ix(Right(t, ord[i])), ix(Parent(t, ord[i]))>>]
ShapeInv == RBShapeOK(Flat(T), Size(T))
WorkBound == [][ last'.op \in {"Get", "Put", "Remove"} => WorkOK("rb", 0, last'.n, last'.cmps) ]_vars
RECURSIVE CanonK(_, _)
CanonK(t, x) == IF x = Nil THEN <<>> ELSE <<t.n[x].key, t.n[x].color, CanonK(t, Left(t, x)), CanonK(t, Right(t, x))>>
Fid == PrintT("S|" \o ToJson(CanonK(T, T.root)))      \* fidelity dump (always TRUE)
\* every generated transition of the model as <<from, op, key, to>> (fidelity of the EDGES; always TRUE)
FidEdge == PrintT("E|" \o ToJson(<<CanonK(T, T.root), last'.op, last'.k, CanonK(T', T'.root)>>))
=============================================================================
