SPECIFICATION TSpec
CONSTANTS
  KeyU = {1, 2, 3, 4, 5}
  ValU = {1}
  MaxNodes = 5
INVARIANT InStep
VIEW TView
CHECK_DEADLOCK FALSE
