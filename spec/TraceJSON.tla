------------------------------- MODULE TraceJSON -------------------------------
(* Trace specification for JSON serialisation (family "json"): C11 round trips   *)
(* and C12 loading over prior content, all 21 container kinds.                   *)
(* What a byte string denotes is computed by encoding/json in the harness (the   *)
(* trusted instrument) and logged: valid / top-level kind / reference decoding   *)
(* `ref` (elements, or <<key, value>> pairs, in textual order).  This module     *)
(* states what must hold between container contents and those observations.     *)
(* Contents are sequences in iteration order: elements for value containers,    *)
(* <<key, value>> pairs for key-value containers.                                *)
EXTENDS AbsSet, Generic, Json, IOUtils

Trace == ndJsonDeserialize(IOEnv.TRACE)
Prop  == IOEnv.PROP

VARIABLES l
vars == <<l>>

Unordered(cfg) == cfg.disc \in {"unordered", "heap"}
SameContent(cfg, a, b) == IF Unordered(cfg) THEN SameBag(a, b) ELSE a = b

\* ---- C11 ----------------------------------------------------------------------------------------
C11(e) ==
  e.op = "RoundTrip" =>
    /\ e.panic = FALSE
    /\ e.err = FALSE /\ e.valid = TRUE                                   \* ToJSON succeeds with valid JSON
    /\ e.jkind = (IF e.cfg.kv THEN "object" ELSE "array")                \* array / object
    /\ e.eqmarshal = TRUE                                                \* identical to json.Marshal(container)
    \* loading into a fresh container of the same kind and configuration gives an equivalent one
    /\ e.loaderr = FALSE  /\ e.fsize = e.size  /\ SameContent(e.cfg, e.fresh, e.orig)  /\ e.fdrain = e.odrain
    /\ e.loaderr2 = FALSE /\ e.fsize2 = e.size /\ SameContent(e.cfg, e.fresh2, e.orig) /\ e.fdrain2 = e.odrain
    /\ e.size = Len(e.orig)

\* ---- C12 ----------------------------------------------------------------------------------------
LastIn(S) == CHOOSE i \in S : \A j \in S : j <= i
RKeys(ref) == {ref[i][1] : i \in DOMAIN ref}
LastVal(ref, k) == ref[LastIn({i \in DOMAIN ref : ref[i][1] = k})][2]       \* duplicate keys: last wins
Graph(ref) == {<<k, LastVal(ref, k)>> : k \in RKeys(ref)}
PKeys(post) == [i \in DOMAIN post |-> post[i][1]]
setcfg(cfg) == [sorted |-> cfg.disc = "sortedset", linked |-> cfg.disc = "linkedset", cmp |-> cfg.cmp]
Tailn(s, n) == SubSeq(s, Len(s) - n + 1, Len(s))
Min2(a, b) == IF a < b THEN a ELSE b

LoadOK(cfg, ref, post) ==
  IF ~cfg.kv THEN
    CASE cfg.disc = "seq"       -> post = ref
      [] cfg.disc = "ring"      -> post = Tailn(ref, Min2(cfg.cap, Len(ref)))          \* keeps the last capacity-many
      [] cfg.disc \in {"stack", "heap"} -> SameBag(post, ref)
      [] cfg.disc = "unordered" -> Members(post) = Members(ref) /\ NoDup(post)          \* sets deduplicate
      [] cfg.disc \in {"linkedset", "sortedset"} -> post = AddAll(setcfg(cfg), <<>>, ref) \* ... and sort
  ELSE
    /\ NoDup(PKeys(post))
    /\ IF cfg.bidi
       THEN \* any outcome of Putting the members of the decoded map in some order:
            /\ Members(post) \subseteq Graph(ref)
            /\ {post[i][2] : i \in DOMAIN post} = {p[2] : p \in Graph(ref)}
            /\ \A i, j \in DOMAIN post : post[i][2] = post[j][2] => i = j                \* stays one-to-one
       ELSE Members(post) = Graph(ref)
    /\ (cfg.sorted => Ascending(cfg.cmp, PKeys(post)))                                   \* ordered containers sort
    /\ ((cfg.disc = "linkedmap" /\ NoDup([i \in DOMAIN ref |-> ref[i][1]])) => PKeys(post) = [i \in DOMAIN ref |-> ref[i][1]])

C12(e) ==
  e.op \in {"FromJSON", "Unmarshal"} =>
    /\ e.panic = FALSE /\ e.obsbad = FALSE
    /\ IF e.err
       THEN SameContent(e.cfg, e.post, e.pre) /\ e.sameobs = TRUE        \* atomic on error
       ELSE /\ e.hasref = TRUE                                           \* success only on a text that denotes something
            /\ LoadOK(e.cfg, e.ref, e.post)                              \* content is exactly what the input denotes
            /\ e.psize = Len(e.post)

Obl(p, e) ==
  CASE p = "C11" -> C11(e)
    [] p = "C12" -> C12(e)
    [] p = "C17" -> e.panic = FALSE /\ e.timeout = FALSE /\ e.out = 0

Init == l = 1
Step ==
  /\ l <= Len(Trace)
  /\ IF Obl(Prop, Trace[l]) = TRUE THEN TRUE ELSE PrintT("REJECT|" \o ToString(l))
  /\ l' = l + 1
Spec == Init /\ [][Step]_vars
Accepted == TLCGet("stats").diameter - 1 = Len(Trace)
=============================================================================
