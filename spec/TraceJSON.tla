------------------------------- MODULE TraceJSON -------------------------------
(* Trace specification for JSON serialisation (family "json"): C11 round trips   *)
(* and C12 loading over prior content, all 21 container kinds.                   *)
(* What a byte string denotes is computed by encoding/json in the harness (the   *)
(* trusted instrument) and logged: valid / top-level kind / reference decoding   *)
(* `ref` (elements, or <<key, value>> pairs, in textual order).  This module     *)
(* states what must hold between container contents and those observations.     *)
(* Contents are sequences in iteration order: elements for value containers,    *)
(* <<key, value>> pairs for key-value containers.                                *)
EXTENDS AbsJSON, Generic, Json, IOUtils

Trace == ndJsonDeserialize(IOEnv.TRACE)
Prop  == IOEnv.PROP

VARIABLES l
vars == <<l>>

Unordered(cfg) == cfg.disc \in {"unordered", "heap"}
SameContent(cfg, a, b) == IF Unordered(cfg) THEN SameBag(a, b) ELSE a = b

\* the Pop / Dequeue sequence of the reloaded container (heap elements are logged as 10 * priority + id):
\* "the same subsequent Pop / Dequeue sequence" (C11) is taken literally, also among elements that tie under the comparator:
\* the library serialises the heap array as laid out and loading a valid heap array leaves it as it is, so the reloaded
\* container drains exactly like the original.  (An earlier version compared drains of heaps up to ties, after a rewrite whose
\* loader SORTED the array had raised this alarm; that rewrite changes the order in which tied elements leave a reloaded queue,
\* which C11 rules out, and the relaxation made the check miss seed C11-2.  Restored.)
SameDrain(cfg, a, b) == a = b

\* ---- C11 ----------------------------------------------------------------------------------------
C11(e) ==
  e.op = "RoundTrip" =>
    /\ e.panic = FALSE
    /\ e.err = FALSE /\ e.valid = TRUE                                   \* ToJSON succeeds with valid JSON
    /\ e.jkind = (IF e.cfg.kv THEN "object" ELSE "array")                \* array / object
    /\ e.eqmarshal = TRUE                                                \* identical to json.Marshal(container)
    /\ e.stable = TRUE                                                   \* the bytes stay what they were while other containers are serialised
    \* loading into a fresh container of the same kind and configuration gives an equivalent one
    /\ e.loaderr = FALSE  /\ e.fsize = e.size  /\ SameContent(e.cfg, e.fresh, e.orig)  /\ SameDrain(e.cfg, e.fdrain, e.odrain)
    /\ e.loaderr2 = FALSE /\ e.fsize2 = e.size /\ SameContent(e.cfg, e.fresh2, e.orig) /\ SameDrain(e.cfg, e.fdrain2, e.odrain)
    /\ e.size = Len(e.orig)

\* ---- C12 (LoadOK is defined in AbsJSON) ------------------------------------------------------------
C12(e) ==
  e.op \in {"FromJSON", "Unmarshal"} =>
    /\ e.panic = FALSE /\ e.obsbad = FALSE
    /\ IF e.err
       THEN SameContent(e.cfg, e.post, e.pre) /\ e.sameobs = TRUE        \* atomic on error
       ELSE /\ e.hasref = TRUE                                           \* success only on a text that denotes something
            /\ LoadOK(e.cfg, e.ref, e.post)                              \* content is exactly what the input denotes
            /\ e.psize = Len(e.post)

\* C15 in states reached by a load: Size() = len(Values()) (= len(Keys()))
C15(e) == (e.op \in {"FromJSON", "Unmarshal"} /\ e.panic = FALSE /\ e.obsbad = FALSE) =>
            /\ e.psize >= 0 /\ e.nvals = e.psize /\ (e.nkeys >= 0 => e.nkeys = e.psize)
Obl(p, e) ==
  CASE p = "C11" -> C11(e)
    [] p = "C15" -> C15(e)
    [] p = "C12" -> C12(e)
    [] p = "C17" -> e.panic = FALSE /\ e.timeout = FALSE /\ e.out = 0

Init == l = 1
Step ==
  /\ l <= Len(Trace)
  /\ IF Obl(Prop, Trace[l]) = TRUE THEN TRUE ELSE PrintT("REJECT|" \o ToString(l))
  /\ l' = l + 1
Spec == Init /\ [][Step]_vars
Accepted == TLCGet("stats").diameter - 1 = Len(Trace)
=============================================================================
