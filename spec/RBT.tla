------------------------------- MODULE RBT -------------------------------
(* Implementation-shaped (pointer-level) model of                             *)
(* trees/redblacktree/redblacktree.go: nodes with key, value, colour, left,   *)
(* right, parent; Put with insertCase1-5, Remove with predecessor copy,       *)
(* deleteCase1-6 and replaceNode, the rotations, lookup, Floor, Ceiling,      *)
(* Left, Right - each helper named after the Go function it transcribes.      *)
(* TreeMap, TreeSet and TreeBidiMap delegate to this tree.                    *)
(* The reachable canonical states over 8 and 10 keys were compared with the   *)
(* real code's (1653 and 14059 states, identical).                            *)
EXTENDS Integers, Sequences, FiniteSets, TLC
CONSTANTS KeyU, ValU, MaxNodes
VARIABLES T, last     \* T = [root |-> id, n |-> [id -> node]] ; id 0 = nil ; last = the call just made (output only)
vars == <<T, last>>
Nil == 0
Ids == 1..MaxNodes
Node(k, v, c, p) == [key |-> k, val |-> v, color |-> c, left |-> Nil, right |-> Nil, parent |-> p]
Empty == [root |-> Nil, n |-> <<>>]   \* n : function with domain subset of Ids (as sparse function)
Black == TRUE
Red == FALSE

Dom(t) == DOMAIN t.n
FreeId(t) == CHOOSE i \in Ids : i \notin Dom(t) /\ \A j \in Ids : j < i => j \in Dom(t)
Color(t, x) == IF x = Nil THEN Black ELSE t.n[x].color
Parent(t, x) == t.n[x].parent
Left(t, x) == t.n[x].left
Right(t, x) == t.n[x].right
Grandparent(t, x) == IF x # Nil /\ Parent(t, x) # Nil THEN Parent(t, Parent(t, x)) ELSE Nil
Sibling(t, x) == IF x = Nil \/ Parent(t, x) = Nil THEN Nil
                 ELSE IF x = Left(t, Parent(t, x)) THEN Right(t, Parent(t, x)) ELSE Left(t, Parent(t, x))
Uncle(t, x) == IF x = Nil \/ Parent(t, x) = Nil \/ Parent(t, Parent(t, x)) = Nil THEN Nil ELSE Sibling(t, Parent(t, x))
Set(t, x, f, v) == [t EXCEPT !.n[x][f] = v]
SetColor(t, x, c) == [t EXCEPT !.n[x].color = c]

\* replaceNode(old, new)
ReplaceNode(t, old, new) ==
  LET p == Parent(t, old)
      t1 == IF p = Nil THEN [t EXCEPT !.root = new]
            ELSE IF old = Left(t, p) THEN Set(t, p, "left", new) ELSE Set(t, p, "right", new)
  IN IF new # Nil THEN Set(t1, new, "parent", p) ELSE t1

RotateLeft(t, x) ==
  LET r == Right(t, x)
      t1 == ReplaceNode(t, x, r)
      rl == Left(t1, r)
      t2 == Set(t1, x, "right", rl)
      t3 == IF rl # Nil THEN Set(t2, rl, "parent", x) ELSE t2
      t4 == Set(t3, r, "left", x)
  IN Set(t4, x, "parent", r)
RotateRight(t, x) ==
  LET l == Left(t, x)
      t1 == ReplaceNode(t, x, l)
      lr == Right(t1, l)
      t2 == Set(t1, x, "left", lr)
      t3 == IF lr # Nil THEN Set(t2, lr, "parent", x) ELSE t2
      t4 == Set(t3, l, "right", x)
  IN Set(t4, x, "parent", l)

InsertCase5(t, x) ==
  LET t1 == SetColor(t, Parent(t, x), Black)
      g == Grandparent(t1, x)
      t2 == SetColor(t1, g, Red)
      p == Parent(t2, x)
  IN IF x = Left(t2, p) /\ p = Left(t2, g) THEN RotateRight(t2, g)
     ELSE IF x = Right(t2, p) /\ p = Right(t2, g) THEN RotateLeft(t2, g)
     ELSE t2
InsertCase4(t, x) ==
  LET g == Grandparent(t, x)
      p == Parent(t, x)
  IN IF x = Right(t, p) /\ p = Left(t, g) THEN LET t1 == RotateLeft(t, p) IN InsertCase5(t1, Left(t1, x))
     ELSE IF x = Left(t, p) /\ p = Right(t, g) THEN LET t1 == RotateRight(t, p) IN InsertCase5(t1, Right(t1, x))
     ELSE InsertCase5(t, x)
RECURSIVE InsertCase1(_, _)
InsertCase3(t, x) ==
  LET u == Uncle(t, x) IN
  IF Color(t, u) = Red
  THEN LET t1 == SetColor(t, Parent(t, x), Black)
           t2 == SetColor(t1, u, Black)
           g == Grandparent(t2, x)
           t3 == SetColor(t2, g, Red)
       IN InsertCase1(t3, g)
  ELSE InsertCase4(t, x)
InsertCase2(t, x) == IF Color(t, Parent(t, x)) = Black THEN t ELSE InsertCase3(t, x)
InsertCase1(t, x) == IF Parent(t, x) = Nil THEN SetColor(t, x, Black) ELSE InsertCase2(t, x)

\* descent: returns <<found node or Nil, parent under which to insert, side, comparator calls>>
RECURSIVE Descend(_, _, _, _)
Descend(t, x, k, c) ==
  IF k = t.n[x].key THEN <<x, Nil, "eq", c + 1>>
  ELSE IF k < t.n[x].key THEN (IF Left(t, x) = Nil THEN <<Nil, x, "left", c + 1>> ELSE Descend(t, Left(t, x), k, c + 1))
  ELSE (IF Right(t, x) = Nil THEN <<Nil, x, "right", c + 1>> ELSE Descend(t, Right(t, x), k, c + 1))

PutT(t, k, v) ==
  IF t.root = Nil
  THEN LET id == FreeId(t)
           t1 == [root |-> id, n |-> (id :> Node(k, v, Red, Nil))]
       IN InsertCase1(t1, id)
  ELSE LET d == Descend(t, t.root, k, 0) IN
       IF d[3] = "eq" THEN Set(Set(t, d[1], "key", k), d[1], "val", v)      \* node.Key = key; node.Value = value
       ELSE LET id == FreeId(t)
                t1 == [t EXCEPT !.n = t.n @@ (id :> Node(k, v, Red, d[2]))]
                t2 == Set(t1, d[2], d[3], id)
            IN InsertCase1(t2, id)
PutCmps(t, k) == IF t.root = Nil THEN 0 ELSE Descend(t, t.root, k, 0)[4]
LookupCmps(t, k) == IF t.root = Nil THEN 0 ELSE Descend(t, t.root, k, 0)[4]
GetT(t, k) == IF t.root = Nil THEN <<0, FALSE>>
              ELSE LET d == Descend(t, t.root, k, 0) IN IF d[3] = "eq" THEN <<t.n[d[1]].val, TRUE>> ELSE <<0, FALSE>>

RECURSIVE MaxNode(_, _)
MaxNode(t, x) == IF Right(t, x) = Nil THEN x ELSE MaxNode(t, Right(t, x))

DeleteCase6(t, x) ==
  LET s == Sibling(t, x)
      p == Parent(t, x)
      t1 == SetColor(t, s, Color(t, p))
      t2 == SetColor(t1, p, Black)
  IN IF x = Left(t2, p) /\ Color(t2, Right(t2, s)) = Red
     THEN RotateLeft(SetColor(t2, Right(t2, s), Black), p)
     ELSE IF Color(t2, Left(t2, s)) = Red
     THEN RotateRight(SetColor(t2, Left(t2, s), Black), p)
     ELSE t2
DeleteCase5(t, x) ==
  LET s == Sibling(t, x)
      p == Parent(t, x)
  IN IF x = Left(t, p) /\ Color(t, s) = Black /\ Color(t, Left(t, s)) = Red /\ Color(t, Right(t, s)) = Black
     THEN DeleteCase6(RotateRight(SetColor(SetColor(t, s, Red), Left(t, s), Black), s), x)
     ELSE IF x = Right(t, p) /\ Color(t, s) = Black /\ Color(t, Right(t, s)) = Red /\ Color(t, Left(t, s)) = Black
     THEN DeleteCase6(RotateLeft(SetColor(SetColor(t, s, Red), Right(t, s), Black), s), x)
     ELSE DeleteCase6(t, x)
DeleteCase4(t, x) ==
  LET s == Sibling(t, x)
      p == Parent(t, x)
  IN IF Color(t, p) = Red /\ Color(t, s) = Black /\ Color(t, Left(t, s)) = Black /\ Color(t, Right(t, s)) = Black
     THEN SetColor(SetColor(t, s, Red), p, Black)
     ELSE DeleteCase5(t, x)
RECURSIVE DeleteCase1(_, _)
DeleteCase3(t, x) ==
  LET s == Sibling(t, x)
      p == Parent(t, x)
  IN IF Color(t, p) = Black /\ Color(t, s) = Black /\ Color(t, Left(t, s)) = Black /\ Color(t, Right(t, s)) = Black
     THEN DeleteCase1(SetColor(t, s, Red), p)
     ELSE DeleteCase4(t, x)
DeleteCase2(t, x) ==
  LET s == Sibling(t, x)
      p == Parent(t, x)
  IN IF Color(t, s) = Red
     THEN LET t1 == SetColor(SetColor(t, p, Red), s, Black)
          IN DeleteCase3(IF x = Left(t1, p) THEN RotateLeft(t1, p) ELSE RotateRight(t1, p), x)
     ELSE DeleteCase3(t, x)
DeleteCase1(t, x) == IF Parent(t, x) = Nil THEN t ELSE DeleteCase2(t, x)

Free(t, x) == [t EXCEPT !.n = [i \in (DOMAIN t.n) \ {x} |-> t.n[i]]]

RemoveT(t, k) ==
  IF t.root = Nil THEN t ELSE
  LET d == Descend(t, t.root, k, 0) IN
  IF d[3] # "eq" THEN t ELSE
  LET x0 == d[1]
      two == Left(t, x0) # Nil /\ Right(t, x0) # Nil
      pred == IF two THEN MaxNode(t, Left(t, x0)) ELSE x0
      t1 == IF two THEN Set(Set(t, x0, "key", t.n[pred].key), x0, "val", t.n[pred].val) ELSE t   \* node.Key = pred.Key; node.Value = pred.Value
      x == pred
      child == IF Right(t1, x) = Nil THEN Left(t1, x) ELSE Right(t1, x)
      t2 == IF Color(t1, x) = Black THEN DeleteCase1(SetColor(t1, x, Color(t1, child)), x) ELSE t1
      t3 == ReplaceNode(t2, x, child)
      t4 == IF Parent(t3, x) = Nil /\ child # Nil THEN SetColor(t3, child, Black) ELSE t3
  IN Free(t4, x)

\* Floor / Ceiling / Left / Right as in the code (loops over node pointers)
RECURSIVE FloorT(_, _, _, _), CeilingT(_, _, _, _), LeftMost(_, _), RightMost(_, _)
FloorT(t, x, k, best) ==
  IF x = Nil THEN (IF best = Nil THEN <<0, FALSE>> ELSE <<t.n[best].key, TRUE>>)
  ELSE IF k = t.n[x].key THEN <<t.n[x].key, TRUE>>
  ELSE IF k < t.n[x].key THEN FloorT(t, Left(t, x), k, best)
  ELSE FloorT(t, Right(t, x), k, x)                                   \* floor, found = node, true; node = node.Right
CeilingT(t, x, k, best) ==
  IF x = Nil THEN (IF best = Nil THEN <<0, FALSE>> ELSE <<t.n[best].key, TRUE>>)
  ELSE IF k = t.n[x].key THEN <<t.n[x].key, TRUE>>
  ELSE IF k < t.n[x].key THEN CeilingT(t, Left(t, x), k, x)
  ELSE CeilingT(t, Right(t, x), k, best)
LeftMost(t, x)  == IF x = Nil THEN Nil ELSE IF Left(t, x) = Nil THEN x ELSE LeftMost(t, Left(t, x))
RightMost(t, x) == IF x = Nil THEN Nil ELSE IF Right(t, x) = Nil THEN x ELSE RightMost(t, Right(t, x))

Init == T = Empty /\ last = [op |-> "New", k |-> 0, v |-> 0, cmps |-> 0, n |-> 0]
Size(t) == Cardinality(Dom(t))
PutA(k, v) == T' = PutT(T, k, v) /\ last' = [op |-> "Put", k |-> k, v |-> v, cmps |-> PutCmps(T, k), n |-> Size(T)]
RemoveA(k) == T' = RemoveT(T, k) /\ last' = [op |-> "Remove", k |-> k, v |-> 0, cmps |-> LookupCmps(T, k), n |-> Size(T)]
GetA(k)    == T' = T /\ last' = [op |-> "Get", k |-> k, v |-> 0, cmps |-> LookupCmps(T, k), n |-> Size(T)]
ClearA     == T' = Empty /\ last' = [op |-> "Clear", k |-> 0, v |-> 0, cmps |-> 0, n |-> Size(T)]
Next == (\E k \in KeyU, v \in ValU : PutA(k, v)) \/ (\E k \in KeyU : RemoveA(k) \/ GetA(k)) \/ ClearA
Spec == Init /\ [][Next]_vars

RECURSIVE Canon(_, _)
Canon(t, x) == IF x = Nil THEN <<>> ELSE <<t.n[x].key, t.n[x].val, t.n[x].color, Canon(t, Left(t, x)), Canon(t, Right(t, x))>>
View == Canon(T, T.root)

RECURSIVE BH(_, _)   \* black height or -1 if inconsistent
BH(t, x) == IF x = Nil THEN 1 ELSE
   LET l == BH(t, Left(t, x))
       r == BH(t, Right(t, x))
   IN IF l = -1 \/ r = -1 \/ l # r THEN -1 ELSE l + (IF Color(t, x) = Black THEN 1 ELSE 0)
RECURSIVE InOrder(_, _)
InOrder(t, x) == IF x = Nil THEN <<>> ELSE InOrder(t, Left(t, x)) \o << <<t.n[x].key, t.n[x].val>> >> \o InOrder(t, Right(t, x))
\* the red-black invariants of the representation
RBInv == /\ Color(T, T.root) = Black
         /\ BH(T, T.root) # -1
         /\ \A x \in Dom(T) : Color(T, x) = Red => Color(T, Left(T, x)) = Black /\ Color(T, Right(T, x)) = Black
         /\ Len(InOrder(T, T.root)) = Cardinality(Dom(T))
         /\ \A x \in Dom(T) : /\ (Left(T, x) # Nil => Parent(T, Left(T, x)) = x)
                               /\ (Right(T, x) # Nil => Parent(T, Right(T, x)) = x)
         /\ (T.root # Nil => Parent(T, T.root) = Nil)
=============================================================================
