SPECIFICATION Spec
CONSTANTS
  Kind = "linkedlistqueue"
  ValU = {0, 1, 2}
  MaxLen = 4
PROPERTIES Refines
CHECK_DEADLOCK FALSE
