SPECIFICATION Spec
CONSTANTS
  KeyU = {0, 1, 2, 3}
  ValU = {0, 1, 2, 3}
INVARIANTS MutualInverse SizesAgree
PROPERTIES Refines
VIEW View
CHECK_DEADLOCK FALSE
