SPECIFICATION Spec
CONSTANTS
  Kind = "linkedliststack"
  ValU = {0, 1, 2}
  MaxLen = 4
PROPERTIES Refines
CHECK_DEADLOCK FALSE
