SPECIFICATION Spec
CONSTANTS
  Disc = "unorderedmap"
  ElemU = {0, 1}
  MaxLen = 3
INVARIANTS LoadsAreOK SomeOutcome RoundTrip
CHECK_DEADLOCK FALSE
