------------------------------- MODULE TraceSeq -------------------------------
(* Trace specification for the three lists (family "seq").                      *)
(* Every line of the trace is one public call on a REAL list, recorded by the   *)
(* harness with the complete observation after it.  The spec state `st` is the  *)
(* observation the abstract machine is in; a line with rs = TRUE starts a new   *)
(* segment from the observation it carries (the tour replays a validated path   *)
(* to the source state of every edge).  Rejected lines are reported and the     *)
(* spec re-synchronises on the observation, so that one run lists every         *)
(* offending call and each property judges only its own aspect.                 *)
EXTENDS AbsSeq, Generic, Json, IOUtils

Trace == ndJsonDeserialize(IOEnv.TRACE)
Prop  == IOEnv.PROP

VARIABLES l, st, src
vars == <<l, st, src>>

\* C03: Get / IndexOf / Contains / Size of an observation agree with its Values()
ObsAgrees(o, zero) ==
  LET s == o.vals IN
  /\ o.size = Len(s)
  /\ Len(s) <= 48 => {o.get[i][1] : i \in DOMAIN o.get} = -1 .. Len(s)      \* short lists: every index; long ones: a spread
  /\ \A i \in DOMAIN o.get : <<o.get[i][2], o.get[i][3]>> = GetRet(s, o.get[i][1], zero)
  /\ \A i \in DOMAIN o.idx : /\ o.idx[i][2] = IndexOf0(s, o.idx[i][1])
                             /\ o.idx[i][3] = (o.idx[i][1] \in Members(s))
  /\ o.cnone = TRUE

\* the value returned by an observer call, computed from the abstract sequence
RetOK(s, e, zero) ==
  CASE e.op = "Get"      -> e.r = GetRet(s, e.a.i, zero)
    [] e.op = "IndexOf"  -> e.r = <<IndexOf0(s, e.a.v)>>
    [] e.op = "Contains" -> e.r = <<ContainsRet(s, e.a.vs)>>
    [] e.op = "Size"     -> e.r = <<Len(s)>>
    [] e.op = "Empty"    -> e.r = <<s = <<>> >>
    [] e.op = "Values"   -> e.r = <<s>>
    [] e.op = "String"   -> e.r = <<NameOf(e.kind)>>
    [] OTHER             -> e.r = <<>>

\* C12 on a load inside a list history: success => exactly the input; failure => unchanged
C12(pre, e) == e.op = "FromJSON" => /\ Completed(e)
                                    /\ e.post.vals = (IF e.r[1] THEN e.a.vs ELSE pre.vals)
                                    /\ ObsAgrees(e.post, e.cfg.zero)
C03(pre, e) ==
  e.op # "FromJSON" =>                    \* the load itself is C12's; what follows is judged from the observed state
  /\ Completed(e)
  /\ IF e.op = "New" THEN e.post.vals = e.a.vs
     ELSE ListAllowed(pre.vals, e.op, e.a, e.post.vals)
  /\ RetOK(pre.vals, e, e.cfg.zero)
  /\ ObsAgrees(e.post, e.cfg.zero)

C15(pre, e) ==
  Completed(e) =>
    /\ SizeOK(e.kind, e.post, FALSE)
    /\ (e.op = "Clear" => e.post.vals = <<>> /\ e.post.size = 0 /\ e.post.empty)
    /\ PureOK(e)

C18(pre, e) == Completed(e) => PureOK(e) /\ (~e.mut => e.post = pre)

Obl(p, pre, e) ==
  CASE p = "C03" -> C03(pre, e)
    [] p = "C12" -> C12(pre, e)
    [] p = "C15" -> C15(pre, e)
    [] p = "C17" -> SilentOK(e)
    [] p = "C18" -> C18(pre, e)

Init == l = 1 /\ st = 0 /\ src = 0
Step ==
  /\ l <= Len(Trace)
  /\ LET e   == Trace[l]
         pre == IF e.rs = 1 THEN e.pre ELSE IF e.rs = 2 THEN src ELSE st
     IN /\ IF Obl(Prop, pre, e) = TRUE THEN TRUE ELSE PrintT("REJECT|" \o ToString(l))
        /\ st' = IF e.obsbad THEN pre ELSE e.post
        /\ src' = IF e.rs = 1 THEN e.pre ELSE src
  /\ l' = l + 1
Spec == Init /\ [][Step]_vars
\* the whole trace was consumed (one state per line plus the initial state)
Accepted == TLCGet("stats").diameter - 1 = Len(Trace)
=============================================================================
