SPECIFICATION ISpec
CONSTANTS
  KeyU = {1, 2, 3, 4, 5, 6, 7, 8, 9}
  ValU = {1}
  MaxNodes = 14
  M = 3
INVARIANT CursorInv
VIEW IView
CHECK_DEADLOCK FALSE
