SPECIFICATION Spec
CONSTANTS
  KeyU = {1, 2, 3, 4, 5, 6, 7}
  ValU = {1}
  MaxNodes = 7
INVARIANTS AVLInv Sorted NavOK MinMaxOK ShapeInv
PROPERTIES Refines WorkBound
VIEW View
CHECK_DEADLOCK FALSE
