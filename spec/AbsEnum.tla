------------------------------- MODULE AbsEnum -------------------------------
(* C14: the enumerable functions over a container's iteration sequence.        *)
(* seq = sequence of <<a, b>>: a = index (lists, sets) or key (maps), b = value *)
(* Predicates come from AbsCursor!Holds, mappers from the family below; both    *)
(* families are implemented once more in the Go harness and bound by name and   *)
(* parameters in every event.                                                   *)
EXTENDS AbsCursor, AbsSet, AbsMap

H(p, pr) == Holds(p, pr[1], pr[1], pr[2])
Matches(seq, p) == {i \in DOMAIN seq : H(p, seq[i])}
First(S) == CHOOSE i \in S : \A j \in S : i <= j

AnyRet(seq, p)  == Matches(seq, p) # {}
AllRet(seq, p)  == Matches(seq, p) = DOMAIN seq
FindRet(seq, p, kv) == IF Matches(seq, p) = {} THEN (IF kv THEN <<0, 0>> ELSE <<-1, 0>>)
                       ELSE seq[First(Matches(seq, p))]

\* content of a container whose iteration sequence is seq: values, or <<key, value>> pairs
Content(seq, kv) == IF kv THEN seq ELSE [i \in DOMAIN seq |-> seq[i][2]]
SelectRes(seq, p, kv) == Content(SelectSeq(seq, LAMBDA pr : H(p, pr)), kv)

\* ---- mappers ------------------------------------------------------------------------------------
MapIdx(m, i, v) == CASE m.name = "add"   -> v + m.c
                     [] m.name = "half"  -> v \div 2
                     [] m.name = "const" -> m.c
                     [] m.name = "index" -> i
                     [] m.name = "sum"   -> i + v
MapKV(m, k, v)  == CASE m.name = "id"     -> <<k, v>>
                     [] m.name = "khalf"  -> <<k \div 2, v>>
                     [] m.name = "vconst" -> <<k, m.c>>
                     [] m.name = "kconst" -> <<m.c, v>>
                     [] m.name = "vkey"   -> <<k, k>>
                     [] m.name = "neg"    -> <<10 - k, v>>
                     [] m.name = "vhalf"  -> <<k, v \div 2>>

\* deterministic Put on the entry sequence (canonical outcome for sorted / linked kinds)
SortedPos(cfg, s, k) == Cardinality({i \in DOMAIN s : Cmp(cfg.cmp, K(s[i]), k) < 0})
PutPost(cfg, s, k, v) ==
  LET h == Hits(cfg, s, k) IN
  IF h # {} THEN [s EXCEPT ![CHOOSE i \in h : TRUE] = <<k, v>>]
  ELSE IF cfg.sorted THEN SpliceAt(s, SortedPos(cfg, s, k), << <<k, v>> >>)
  ELSE Append(s, <<k, v>>)
BidiPutPost(cfg, s, k, v) ==
  LET rest == Without(s, Hits(cfg, s, k) \cup VHits(cfg, s, v)) IN
  IF cfg.sorted THEN SpliceAt(rest, SortedPos(cfg, rest, k), << <<k, v>> >>) ELSE Append(rest, <<k, v>>)
\* Put folded over the pairs, left to right
PutAll(cfg, s, prs) == FoldLeft(LAMBDA acc, pr : IF cfg.bidi THEN BidiPutPost(cfg, acc, pr[1], pr[2]) ELSE PutPost(cfg, acc, pr[1], pr[2]), s, prs)

\* Map: insert the mapped elements in iteration order into an empty container of the same configuration
MapRes(cfg, seq, m) ==
  IF cfg.kv THEN PutAll(cfg, <<>>, [i \in DOMAIN seq |-> MapKV(m, seq[i][1], seq[i][2])])
  ELSE LET mapped == [i \in DOMAIN seq |-> MapIdx(m, seq[i][1], seq[i][2])] IN
       IF cfg.disc = "seq" THEN mapped
       ELSE AddAll([sorted |-> cfg.disc = "sortedset", linked |-> cfg.disc = "linkedset", cmp |-> cfg.cmp], <<>>, mapped)
=============================================================================
