------------------------------- MODULE DLL -------------------------------
(* Implementation-shaped model of lists/doublylinkedlist/doublylinkedlist.go at *)
(* cell level: elements with value / prev / next, the fields first, last, size, *)
(* and the bodies of Add, Prepend, Insert, Remove, Set, Swap, Clear including   *)
(* the choice of traversal direction (size-index < index).  Every dereference   *)
(* the code does not guard is an explicit `panic` outcome.                      *)
EXTENDS Integers, Sequences, FiniteSets, TLC
CONSTANTS MaxLen, Vals
VARIABLES L, last
vars == <<L, last>>
Nil == 0
Ids == 1..(MaxLen + 2)
Null == [value |-> 0, prev |-> -1, next |-> -1]
Empty == [first |-> Nil, last |-> Nil, size |-> 0, panic |-> FALSE, n |-> TLCEval([i \in Ids |-> Null])]
Used(t) == {i \in Ids : t.n[i].prev # -1}
FreeId(t) == CHOOSE i \in Ids \ Used(t) : \A j \in Ids \ Used(t) : i <= j
\* guarded field access: dereferencing Nil makes the whole operation panic
Panic(t) == [t EXCEPT !.panic = TRUE]
NextOf(t, x) == IF x = Nil THEN Nil ELSE t.n[x].next     \* reads of nil are caught where the code writes through them
PrevOf(t, x) == IF x = Nil THEN Nil ELSE t.n[x].prev
SetNext(t, x, v) == IF t.panic THEN t ELSE IF x = Nil THEN Panic(t) ELSE [t EXCEPT !.n[x].next = v]
SetPrev(t, x, v) == IF t.panic THEN t ELSE IF x = Nil THEN Panic(t) ELSE [t EXCEPT !.n[x].prev = v]
SetVal(t, x, v)  == IF t.panic THEN t ELSE IF x = Nil THEN Panic(t) ELSE [t EXCEPT !.n[x].value = v]
New(t, v, p, nx) == LET id == FreeId(t) IN <<[t EXCEPT !.n[id] = [value |-> v, prev |-> p, next |-> nx]], id>>
WithinRange(t, i) == i >= 0 /\ i < t.size

RECURSIVE AddT(_, _), PrependT(_, _), WalkFwd(_, _, _), WalkBack(_, _, _)
AddT(t, vs) ==
  IF vs = <<>> THEN t ELSE
  LET r == New(t, Head(vs), t.last, Nil)  t1 == r[1]  id == r[2]
      t2 == IF t1.size = 0 THEN [t1 EXCEPT !.first = id, !.last = id]
            ELSE [SetNext(t1, t1.last, id) EXCEPT !.last = id]
  IN AddT([t2 EXCEPT !.size = @ + 1], Tail(vs))
PrependT(t, vs) ==           \* iterates the argument in reverse
  IF vs = <<>> THEN t ELSE
  LET v == vs[Len(vs)]
      r == New(t, v, Nil, t.first)  t1 == r[1]  id == r[2]
      t2 == IF t1.size = 0 THEN [t1 EXCEPT !.first = id, !.last = id]
            ELSE [SetPrev(t1, t1.first, id) EXCEPT !.first = id]
  IN PrependT([t2 EXCEPT !.size = @ + 1], SubSeq(vs, 1, Len(vs) - 1))
WalkFwd(t, x, k) == IF k = 0 THEN x ELSE WalkFwd(t, NextOf(t, x), k - 1)
WalkBack(t, x, k) == IF k = 0 THEN x ELSE WalkBack(t, PrevOf(t, x), k - 1)
\* element at index with the code's choice of traversal direction
Locate(t, i) == IF t.size - i < i THEN WalkBack(t, t.last, t.size - 1 - i) ELSE WalkFwd(t, t.first, i)

RECURSIVE Chain(_, _, _)
\* link values vs after `before` (first one becomes list.first when atHead); returns <<t, lastNew>>
Chain(t, vs, st) ==      \* st = [before, idx, atHead]
  IF vs = <<>> THEN <<t, st.before>> ELSE
  LET r == New(t, Head(vs), Nil, Nil)  t1 == r[1]  id == r[2]
      t2 == IF st.atHead /\ st.idx = 0 THEN [t1 EXCEPT !.first = id]
            ELSE SetNext(SetPrev(t1, id, st.before), st.before, id)
  IN Chain(t2, Tail(vs), [before |-> id, idx |-> st.idx + 1, atHead |-> st.atHead])
InsertT(t, i, vs) ==
  IF ~WithinRange(t, i) THEN (IF i = t.size THEN AddT(t, vs) ELSE t) ELSE
  IF vs = <<>> THEN t ELSE                                  \* if len(values) == 0 { return }  (repaired: fix 611e121)
  LET found == Locate(t, i)
      before == PrevOf(t, found)
  IN IF found = t.first
     THEN LET old == t.first
              c == Chain(t, vs, [before |-> before, idx |-> 0, atHead |-> TRUE])
              t1 == SetPrev(c[1], old, c[2])
              t2 == SetNext(t1, c[2], old)                 \* c[2] = Nil when vs is empty: the code panics here
          IN IF t2.panic THEN t2 ELSE [t2 EXCEPT !.size = @ + Len(vs)]
     ELSE LET old == NextOf(t, before)
              c == Chain(t, vs, [before |-> before, idx |-> 0, atHead |-> FALSE])
              t1 == SetPrev(c[1], old, c[2])
              t2 == SetNext(t1, c[2], old)
          IN IF t2.panic THEN t2 ELSE [t2 EXCEPT !.size = @ + Len(vs)]
ClearT(t) == [Empty EXCEPT !.panic = t.panic]
RemoveT(t, i) ==
  IF ~WithinRange(t, i) THEN t ELSE IF t.size = 1 THEN ClearT(t) ELSE
  LET e == Locate(t, i)
      t1 == IF e = t.first THEN [t EXCEPT !.first = NextOf(t, e)] ELSE t
      t2 == IF e = t1.last THEN [t1 EXCEPT !.last = PrevOf(t1, e)] ELSE t1
      t3 == IF PrevOf(t2, e) # Nil THEN SetNext(t2, PrevOf(t2, e), NextOf(t2, e)) ELSE t2
      t4 == IF NextOf(t3, e) # Nil THEN SetPrev(t3, NextOf(t3, e), PrevOf(t3, e)) ELSE t3
  IN [t4 EXCEPT !.n[e] = Null, !.size = @ - 1]
SetT(t, i, v) == IF ~WithinRange(t, i) THEN (IF i = t.size THEN AddT(t, <<v>>) ELSE t) ELSE SetVal(t, Locate(t, i), v)
SwapT(t, i, j) == IF WithinRange(t, i) /\ WithinRange(t, j) /\ i # j
                  THEN LET a == WalkFwd(t, t.first, i)  b == WalkFwd(t, t.first, j)
                       IN SetVal(SetVal(t, a, t.n[b].value), b, t.n[a].value)
                  ELSE t

RECURSIVE ValuesFrom(_, _)
ValuesFrom(t, x) == IF x = Nil THEN <<>> ELSE <<t.n[x].value>> \o ValuesFrom(t, t.n[x].next)
Values(t) == ValuesFrom(t, t.first)
RECURSIVE ValuesBack(_, _)
ValuesBack(t, x) == IF x = Nil THEN <<>> ELSE ValuesBack(t, t.n[x].prev) \o <<t.n[x].value>>

Arg(i, j, v, vs) == [i |-> i, j |-> j, v |-> v, vs |-> vs, cmp |-> "nat"]
VSS == {<<>>} \cup {<<v>> : v \in Vals} \cup {<<v, w>> : v, w \in Vals}
Idx(t) == (-1)..(t.size + 1)
Fits(t, vs) == t.size + Len(vs) <= MaxLen
Init == L = Empty /\ last = [op |-> "New", a |-> Arg(0, 0, 0, <<>>)]
Step(op, a, t) == L' = t /\ last' = [op |-> op, a |-> a]
Next == ~L.panic /\
   \/ \E vs \in VSS : Fits(L, vs) /\ Step("Add", Arg(0, 0, 0, vs), AddT(L, vs))
   \/ \E vs \in VSS : Fits(L, vs) /\ Step("Prepend", Arg(0, 0, 0, vs), PrependT(L, vs))
   \/ \E vs \in VSS, i \in Idx(L) : Fits(L, vs) /\ Step("Insert", Arg(i, 0, 0, vs), InsertT(L, i, vs))
   \/ \E i \in Idx(L) : Step("Remove", Arg(i, 0, 0, <<>>), RemoveT(L, i))
   \/ \E i \in Idx(L), v \in Vals : Fits(L, <<v>>) /\ Step("Set", Arg(i, 0, v, <<>>), SetT(L, i, v))
   \/ \E i, j \in Idx(L) : Step("Swap", Arg(i, j, 0, <<>>), SwapT(L, i, j))
   \/ Step("Clear", Arg(0, 0, 0, <<>>), ClearT(L))
Spec == Init /\ [][Next]_vars
=============================================================================
