------------------------------- MODULE BidiMap -------------------------------
(* Implementation-shaped model of maps/hashbidimap (and maps/treebidimap,       *)
(* which is the same four statements over two red-black trees): two maps,       *)
(* `forward` and `inverse`, updated by separate statements in Put / Remove.     *)
EXTENDS Integers, Sequences, FiniteSets, TLC, BidiOps
CONSTANTS KeyU, ValU
VARIABLES forward, inverse, last
vars == <<forward, inverse, last>>
Init == forward = <<>> /\ inverse = <<>> /\ last = [op |-> "New", k |-> 0, v |-> 0]
Step(op, k, v, r) == forward' = TLCEval(r[1]) /\ inverse' = TLCEval(r[2]) /\ last' = [op |-> op, k |-> k, v |-> v]
Next == \/ \E k \in KeyU, v \in ValU : Step("Put", k, v, PutS(forward, inverse, k, v))
        \/ \E k \in KeyU : Step("Remove", k, 0, RemoveS(forward, inverse, k))
        \/ Step("Clear", 0, 0, << <<>>, <<>> >>)
Spec == Init /\ [][Next]_vars
=============================================================================
