------------------------------- MODULE BidiMap -------------------------------
(* Implementation-shaped model of maps/hashbidimap (and maps/treebidimap,       *)
(* which is the same four statements over two red-black trees): two maps,       *)
(* `forward` and `inverse`, updated by separate statements in Put / Remove.     *)
EXTENDS Integers, Sequences, FiniteSets, TLC
CONSTANTS KeyU, ValU
VARIABLES forward, inverse, last
vars == <<forward, inverse, last>>
HasK(m, k) == k \in DOMAIN m
Del(m, k) == [x \in DOMAIN m \ {k} |-> m[x]]
SetK(m, k, v) == [x \in DOMAIN m \cup {k} |-> IF x = k THEN v ELSE m[x]]
PutS(f, g, k, v) ==
  LET g1 == IF HasK(f, k) THEN Del(g, f[k]) ELSE g            \* if valueByKey, ok := forward.Get(key); ok { inverse.Remove(valueByKey) }
      f1 == IF HasK(g1, v) THEN Del(f, g1[v]) ELSE f           \* if keyByValue, ok := inverse.Get(value); ok { forward.Remove(keyByValue) }
  IN <<SetK(f1, k, v), SetK(g1, v, k)>>                         \* forward.Put(key, value); inverse.Put(value, key)
RemoveS(f, g, k) == IF HasK(f, k) THEN <<Del(f, k), Del(g, f[k])>> ELSE <<f, g>>
Init == forward = <<>> /\ inverse = <<>> /\ last = [op |-> "New", k |-> 0, v |-> 0]
Step(op, k, v, r) == forward' = TLCEval(r[1]) /\ inverse' = TLCEval(r[2]) /\ last' = [op |-> op, k |-> k, v |-> v]
Next == \/ \E k \in KeyU, v \in ValU : Step("Put", k, v, PutS(forward, inverse, k, v))
        \/ \E k \in KeyU : Step("Remove", k, 0, RemoveS(forward, inverse, k))
        \/ Step("Clear", 0, 0, << <<>>, <<>> >>)
Spec == Init /\ [][Next]_vars
=============================================================================
