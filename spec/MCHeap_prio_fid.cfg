SPECIFICATION Spec
CONSTANTS
  Items <- ItemsDef
  CmpName = "prio"
INVARIANT Fid
VIEW View
CHECK_DEADLOCK FALSE
