------------------------------- MODULE AVLIter -------------------------------
(* Implementation-shaped model of trees/avltree/iterator.go over the pointer   *)
(* model AVL: position in {begin, between, end} and a node; Next / Prev step   *)
(* with Node.Next / Node.Prev = walk1(a): the extreme node of the a-side       *)
(* subtree, else climb while coming from the a side.  Note the quirk the code  *)
(* has and the model keeps: at `end`, Next leaves everything as it is, and the *)
(* `between` case with a nil node cannot arise.  Checked against AbsCursor.    *)
EXTENDS AVL, AbsCursor
VARIABLES it, pos, ret, stale
ivars == <<T, last, it, pos, ret, stale>>
Seq0 == InOrder(T, T.root)
RECURSIVE Extreme(_, _, _), Climb(_, _, _)
Extreme(t, x, a) == IF Child(t, x, a) = Nil THEN x ELSE Extreme(t, Child(t, x, a), a)
Climb(t, x, a) == LET p == t.n[x].parent IN                 \* for p != nil && p.Children[a] == n { n = p; p = p.Parent }
  IF p = Nil THEN Nil ELSE IF Child(t, p, a) = x THEN Climb(t, p, a) ELSE p
Walk1(t, x, a) == IF x = Nil THEN Nil
                  ELSE IF Child(t, x, a) # Nil THEN Extreme(t, Child(t, x, a), 1 - a)
                  ELSE Climb(t, x, a)
Btw(x) == [position |-> "between", node |-> x]
AtEnd == [position |-> "end", node |-> Nil]
AtBegin == [position |-> "begin", node |-> Nil]
Settle(i, endpos) == IF i.node = Nil THEN [position |-> endpos, node |-> Nil] ELSE i
NextIt(t, i) ==
  Settle(CASE i.position = "begin"   -> Btw(Bottom(t, t.root, 0))          \* tree.Left()
           [] i.position = "between" -> Btw(Walk1(t, i.node, 1))           \* node.Next()
           [] OTHER                  -> i, "end")
PrevIt(t, i) ==
  Settle(CASE i.position = "end"     -> Btw(Bottom(t, t.root, 1))          \* tree.Right()
           [] i.position = "between" -> Btw(Walk1(t, i.node, 0))           \* node.Prev()
           [] OTHER                  -> i, "begin")
Pr == [name |-> "true", m |-> 0, r |-> 0, i |-> 0]
IInit == Init /\ it = [position |-> "closed", node |-> Nil] /\ pos = -1 /\ ret = FALSE /\ stale = FALSE
Build == it.position = "closed" /\ Next /\ UNCHANGED <<it, pos, ret, stale>>
Open == it.position = "closed" /\ it' = AtBegin /\ pos' = -1 /\ ret' = FALSE /\ UNCHANGED <<T, last, stale>>
Opened == it.position # "closed"
\* kept iterators (DESIGN 14.4, as in RBTIter): the tree is modified while the iterator exists; only the absolute jumps are
\* specified (and modelled) from a stale iterator, and they anchor it again
Absolute(op) == op \in {"Begin", "End", "First", "Last"}
Mutate == Opened /\ Next /\ stale' = TRUE /\ UNCHANGED <<it, pos, ret>>
Do(op, j) == /\ Opened /\ (~stale \/ Absolute(op)) /\ it' = j /\ pos' = Move(Seq0, pos, op, Pr)
             /\ ret' = (j.node # Nil) /\ stale' = FALSE /\ UNCHANGED <<T, last>>
INext == \/ Build \/ Open \/ Mutate
         \/ Do("Next", NextIt(T, it)) \/ Do("Prev", PrevIt(T, it))
         \/ Do("Begin", AtBegin) \/ Do("End", AtEnd)
         \/ Do("First", NextIt(T, AtBegin)) \/ Do("Last", PrevIt(T, AtEnd))
ISpec == IInit /\ [][INext]_ivars
CursorInv == (Opened /\ ~stale) =>
   /\ (it.position = "between") = Inside(Seq0, pos)
   /\ (it.position = "between" => it.node # Nil /\ <<T.n[it.node].key, T.n[it.node].val>> = Seq0[pos + 1])
   /\ (it.position = "begin" => pos = -1) /\ (it.position = "end" => pos = Len(Seq0))
IView == IF stale THEN <<Canon(T, T.root), "stale", 0, 0>>
         ELSE <<Canon(T, T.root), it.position, IF it.node = Nil THEN 0 ELSE T.n[it.node].key, pos>>
=============================================================================
