------------------------------- MODULE SLL -------------------------------
(* Implementation-shaped model of lists/singlylinkedlist/singlylinkedlist.go   *)
(* at cell level: elements with value / next, the fields first, last, size,    *)
(* and the bodies of Add, Prepend, Insert (head case and interior case),       *)
(* Remove (first / last / interior), Set, Swap, Clear.  A dereference the code *)
(* does not guard is an explicit `panic` outcome.  LinkedListStack and         *)
(* LinkedListQueue are views of this list (Prepend / Add + Remove(0)).         *)
EXTENDS Integers, Sequences, FiniteSets, TLC
CONSTANTS MaxLen, Vals
VARIABLES L, last
vars == <<L, last>>
Nil == 0
Ids == 1..(MaxLen + 2)
Null == [value |-> 0, next |-> -1]
Empty == [first |-> Nil, last |-> Nil, size |-> 0, panic |-> FALSE, n |-> TLCEval([i \in Ids |-> Null])]
Used(t) == {i \in Ids : t.n[i].next # -1}
FreeId(t) == CHOOSE i \in Ids \ Used(t) : \A j \in Ids \ Used(t) : i <= j
Panic(t) == [t EXCEPT !.panic = TRUE]
NextOf(t, x) == IF x = Nil THEN Nil ELSE t.n[x].next
SetNext(t, x, v) == IF t.panic THEN t ELSE IF x = Nil THEN Panic(t) ELSE [t EXCEPT !.n[x].next = v]
SetVal(t, x, v)  == IF t.panic THEN t ELSE IF x = Nil THEN Panic(t) ELSE [t EXCEPT !.n[x].value = v]
New(t, v, nx) == LET id == FreeId(t) IN <<[t EXCEPT !.n[id] = [value |-> v, next |-> nx]], id>>
WithinRange(t, i) == i >= 0 /\ i < t.size

RECURSIVE AddT(_, _), PrependT(_, _), Walk(_, _, _), Chain(_, _, _)
AddT(t, vs) ==
  IF vs = <<>> THEN t ELSE
  LET r == New(t, Head(vs), Nil)  t1 == r[1]  id == r[2]
      t2 == IF t1.size = 0 THEN [t1 EXCEPT !.first = id, !.last = id]
            ELSE [SetNext(t1, t1.last, id) EXCEPT !.last = id]
  IN AddT([t2 EXCEPT !.size = @ + 1], Tail(vs))
PrependT(t, vs) ==                                   \* iterates the argument in reverse
  IF vs = <<>> THEN t ELSE
  LET r == New(t, vs[Len(vs)], t.first)  t1 == r[1]  id == r[2]
      t2 == [t1 EXCEPT !.first = id]
      t3 == IF t2.size = 0 THEN [t2 EXCEPT !.last = id] ELSE t2
  IN PrependT([t3 EXCEPT !.size = @ + 1], SubSeq(vs, 1, Len(vs) - 1))
Walk(t, x, k) == IF k = 0 THEN x ELSE Walk(t, NextOf(t, x), k - 1)
\* link values vs after `before` (the first becomes list.first in the head case); returns <<t, last new element>>
Chain(t, vs, st) ==                                  \* st = [before, idx, atHead]
  IF vs = <<>> THEN <<t, st.before>> ELSE
  LET r == New(t, Head(vs), Nil)  t1 == r[1]  id == r[2]
      t2 == IF st.atHead /\ st.idx = 0 THEN [t1 EXCEPT !.first = id] ELSE SetNext(t1, st.before, id)
  IN Chain(t2, Tail(vs), [before |-> id, idx |-> st.idx + 1, atHead |-> st.atHead])
InsertT(t, i, vs) ==
  IF ~WithinRange(t, i) THEN (IF i = t.size THEN AddT(t, vs) ELSE t) ELSE
  IF vs = <<>> THEN t ELSE                           \* if len(values) == 0 { return }   (repaired: fix 611e121)
  LET t0 == [t EXCEPT !.size = @ + Len(vs)]          \* list.size += len(values)
      before == IF i = 0 THEN Nil ELSE Walk(t0, t0.first, i - 1)
      found == IF i = 0 THEN t0.first ELSE NextOf(t0, before)
  IN IF found = t0.first
     THEN LET old == t0.first
              c == Chain(t0, vs, [before |-> before, idx |-> 0, atHead |-> TRUE])
          IN SetNext(c[1], c[2], old)
     ELSE LET old == NextOf(t0, before)
              c == Chain(t0, vs, [before |-> before, idx |-> 0, atHead |-> FALSE])
          IN SetNext(c[1], c[2], old)
ClearT(t) == [Empty EXCEPT !.panic = t.panic]
RemoveT(t, i) ==
  IF ~WithinRange(t, i) THEN t ELSE IF t.size = 1 THEN ClearT(t) ELSE
  LET before == IF i = 0 THEN Nil ELSE Walk(t, t.first, i - 1)
      e == IF i = 0 THEN t.first ELSE NextOf(t, before)
      t1 == IF e = t.first THEN [t EXCEPT !.first = NextOf(t, e)] ELSE t
      t2 == IF e = t1.last THEN [t1 EXCEPT !.last = before] ELSE t1
      t3 == IF before # Nil THEN SetNext(t2, before, NextOf(t2, e)) ELSE t2
  IN [t3 EXCEPT !.n[e] = Null, !.size = @ - 1]
SetT(t, i, v) == IF ~WithinRange(t, i) THEN (IF i = t.size THEN AddT(t, <<v>>) ELSE t) ELSE SetVal(t, Walk(t, t.first, i), v)
SwapT(t, i, j) == IF WithinRange(t, i) /\ WithinRange(t, j) /\ i # j
                  THEN LET a == Walk(t, t.first, i)  b == Walk(t, t.first, j)
                       IN SetVal(SetVal(t, a, t.n[b].value), b, t.n[a].value)
                  ELSE t
RECURSIVE ValuesFrom(_, _, _)
ValuesFrom(t, x, fuel) == IF x = Nil \/ fuel = 0 THEN <<>> ELSE <<t.n[x].value>> \o ValuesFrom(t, t.n[x].next, fuel - 1)
Values(t) == ValuesFrom(t, t.first, MaxLen + 3)

Arg(i, j, v, vs) == [i |-> i, j |-> j, v |-> v, vs |-> vs, cmp |-> "nat"]
VSS == {<<>>} \cup {<<v>> : v \in Vals} \cup {<<v, w>> : v, w \in Vals} \cup {<<v, w, v>> : v, w \in Vals}
Idx(t) == (-1)..(t.size + 1)
Fits(t, vs) == t.size + Len(vs) <= MaxLen
Init == L = Empty /\ last = [op |-> "New", a |-> Arg(0, 0, 0, <<>>)]
Step(op, a, t) == L' = t /\ last' = [op |-> op, a |-> a]
Next == ~L.panic /\
   \/ \E vs \in VSS : Fits(L, vs) /\ Step("Add", Arg(0, 0, 0, vs), AddT(L, vs))
   \/ \E vs \in VSS : Fits(L, vs) /\ Step("Prepend", Arg(0, 0, 0, vs), PrependT(L, vs))
   \/ \E vs \in VSS, i \in Idx(L) : Fits(L, vs) /\ Step("Insert", Arg(i, 0, 0, vs), InsertT(L, i, vs))
   \/ \E i \in Idx(L) : Step("Remove", Arg(i, 0, 0, <<>>), RemoveT(L, i))
   \/ \E i \in Idx(L), v \in Vals : Fits(L, <<v>>) /\ Step("Set", Arg(i, 0, v, <<>>), SetT(L, i, v))
   \/ \E i, j \in Idx(L) : Step("Swap", Arg(i, j, 0, <<>>), SwapT(L, i, j))
   \/ Step("Clear", Arg(0, 0, 0, <<>>), ClearT(L))
Spec == Init /\ [][Next]_vars
=============================================================================
