------------------------------- MODULE MCHeap -------------------------------
(* Bounded model checking of the heap model: heap order, refinement of the   *)
(* bag machine of AbsHeap (C06), size agreement (C15).                        *)
EXTENDS Heap, AbsHeap, Json
ItemsDef == {[p |-> 1, id |-> 1], [p |-> 1, id |-> 2], [p |-> 2, id |-> 3], [p |-> 2, id |-> 4], [p |-> 3, id |-> 5], [p |-> 0, id |-> 0]}
HeapOrdered == \A i \in 1..Len(h)-1 : HCmp(At0(h, (i - 1) \div 2), At0(h, i)) <= 0
\* C06 on every step: Pop/Peek return an element no contained element precedes; the bag is exact
Refines ==
  [][ CASE last'.op = "Push"     -> PushAllowed(CmpName, h, last'.vs, h')
        [] last'.op = "Pop"      -> PopAllowed(CmpName, h, last'.r, h', ZeroEl)
        [] last'.op = "Peek"     -> PeekOK(CmpName, h, last'.r, ZeroEl) /\ h' = h
        [] last'.op = "Clear"    -> h' = <<>>
        [] last'.op = "FromJSON" -> LoadAllowed(CmpName, last'.vs, h')
        [] OTHER -> TRUE ]_vars
View == h
Fid == PrintT("S|" \o ToJson(h))
=============================================================================
