SPECIFICATION Spec
CONSTANTS
  Cap = 3
  Vals = {1, 2, 3}
INVARIANTS IndexInv FullIffSizeCap SizeAgrees
PROPERTIES Refines IdxRefines
VIEW View
CHECK_DEADLOCK FALSE
