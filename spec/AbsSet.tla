------------------------------- MODULE AbsSet -------------------------------
(* C04 C13: sets.  State = sequence of members in enumeration order.          *)
EXTENDS Common
Hit(cfg, s, x) == \E i \in DOMAIN s : KeyEq(cfg, s[i], x)
RECURSIVE AddAll(_, _, _), RemoveAll(_, _, _)
\* canonical post for linked / sorted kinds (deterministic); hash kinds are compared as sets
AddOne(cfg, s, x) ==
  IF Hit(cfg, s, x) THEN s
  ELSE IF cfg.sorted THEN LET p == Cardinality({i \in DOMAIN s : Cmp(cfg.cmp, s[i], x) < 0}) IN SpliceAt(s, p, <<x>>)
  ELSE Append(s, x)
AddAll(cfg, s, xs) == IF xs = <<>> THEN s ELSE AddAll(cfg, AddOne(cfg, s, Head(xs)), Tail(xs))
RemoveOne(cfg, s, x) == SelectSeq(s, LAMBDA y : ~KeyEq(cfg, y, x))
RemoveAll(cfg, s, xs) == IF xs = <<>> THEN s ELSE RemoveAll(cfg, RemoveOne(cfg, s, Head(xs)), Tail(xs))
\* which representative of comparator-equal members is kept is free: compare modulo KeyEq
SameSet(cfg, s, t) ==
  /\ Len(s) = Len(t)
  /\ IF cfg.sorted \/ cfg.linked THEN \A i \in DOMAIN s : KeyEq(cfg, s[i], t[i])
     ELSE Members(s) = Members(t)
ContainsRet(cfg, s, xs) == \A i \in DOMAIN xs : Hit(cfg, s, xs[i])
\* C13 algebra on two operands (possibly the same object); result order: sorted for TreeSet, free otherwise
InterOK(cfg, a, b, r) == /\ \A x \in Members(r) : Hit(cfg, a, x) /\ Hit(cfg, b, x)
                         /\ \A x \in Members(a) : Hit(cfg, b, x) => Hit(cfg, r, x)
UnionOK(cfg, a, b, r) == /\ \A x \in Members(r) : Hit(cfg, a, x) \/ Hit(cfg, b, x)
                         /\ \A x \in Members(a) \cup Members(b) : Hit(cfg, r, x)
DiffOK(cfg, a, b, r)  == /\ \A x \in Members(r) : Hit(cfg, a, x) /\ ~Hit(cfg, b, x)
                         /\ \A x \in Members(a) : ~Hit(cfg, b, x) => Hit(cfg, r, x)
ResultWF(cfg, r) == /\ \A i, j \in DOMAIN r : KeyEq(cfg, r[i], r[j]) => i = j
                    /\ (cfg.sorted => Ascending(cfg.cmp, r))
=============================================================================
