------------------------------- MODULE AbsSet -------------------------------
(* C04 C13: sets.  State = sequence of members in enumeration order.          *)
EXTENDS Common
\* the key of a member: what the kind's own equality looks at (Go == or the comparator's rank);  KeyEq(cfg, a, b) <=> KeyOf(cfg, a) = KeyOf(cfg, b)
KeyOf(cfg, x)  == IF cfg.sorted THEN Rank(cfg.cmp, x) ELSE x
KeySet(cfg, s) == {KeyOf(cfg, s[i]) : i \in DOMAIN s}
Hit(cfg, s, x) == KeyOf(cfg, x) \in KeySet(cfg, s)
NoDupKeys(cfg, s) == Cardinality(KeySet(cfg, s)) = Len(s)
\* canonical post for linked / sorted kinds (deterministic); hash kinds are compared as sets
AddOne(cfg, s, x) ==
  IF Hit(cfg, s, x) THEN s
  ELSE IF cfg.sorted THEN LET p == Cardinality({i \in DOMAIN s : Cmp(cfg.cmp, s[i], x) < 0}) IN SpliceAt(s, p, <<x>>)
  ELSE Append(s, x)
\* AddAll = AddOne folded over the arguments, left to right; the accumulator carries the key set (argument lists of thousands)
AddStep(cfg, acc, x) ==
  LET k == KeyOf(cfg, x) IN
  IF k \in acc.keys THEN acc
  ELSE [seq  |-> IF cfg.sorted THEN LET p == Cardinality({i \in DOMAIN acc.seq : Cmp(cfg.cmp, acc.seq[i], x) < 0}) IN SpliceAt(acc.seq, p, <<x>>)
                 ELSE Append(acc.seq, x),
        keys |-> TLCEval(acc.keys \cup {k})]
AddAll(cfg, s, xs) == FoldLeft(LAMBDA acc, x : AddStep(cfg, acc, x), [seq |-> s, keys |-> KeySet(cfg, s)], xs).seq
RemoveOne(cfg, s, x) == SelectSeq(s, LAMBDA y : ~KeyEq(cfg, y, x))
RemoveAll(cfg, s, xs) == LET K == KeySet(cfg, xs) IN SelectSeq(s, LAMBDA y : KeyOf(cfg, y) \notin K)
\* which representative of comparator-equal members is kept is free: compare modulo KeyEq
SameSet(cfg, s, t) ==
  /\ Len(s) = Len(t)
  /\ IF cfg.sorted \/ cfg.linked THEN \A i \in DOMAIN s : KeyEq(cfg, s[i], t[i])
     ELSE Members(s) = Members(t)
ContainsRet(cfg, s, xs) == LET K == KeySet(cfg, s) IN \A i \in DOMAIN xs : KeyOf(cfg, xs[i]) \in K
\* C13 algebra on two operands (possibly the same object); result order: sorted for TreeSet, free otherwise.
\* (r's members are members of an operand up to the kind's equality: which representative is free)
InterOK(cfg, a, b, r) == KeySet(cfg, r) = KeySet(cfg, a) \cap KeySet(cfg, b)
UnionOK(cfg, a, b, r) == KeySet(cfg, r) = KeySet(cfg, a) \cup KeySet(cfg, b)
DiffOK(cfg, a, b, r)  == KeySet(cfg, r) = KeySet(cfg, a) \ KeySet(cfg, b)
ResultWF(cfg, r) == /\ NoDupKeys(cfg, r)
                    /\ (cfg.sorted => Ascending(cfg.cmp, r))
=============================================================================
