------------------------------- MODULE AbsReaders -------------------------------
(* C18: read-only operations are pure, hence safe for concurrent readers.        *)
(* Abstract machine: a container value that no step changes and a set of reader  *)
(* processes; each reader repeatedly starts a read-only operation and later       *)
(* finishes it with a result.  Between Start and Finish of one reader any number  *)
(* of steps of other readers may happen (every interleaving is a behaviour).     *)
(* ReadersPure and ResultIsSequential are what the recorded concurrent runs of    *)
(* the real code are checked against (TraceReaders.tla).                          *)
EXTENDS Integers, Sequences, FiniteSets

CONSTANTS Readers, Ops, Values     \* reader ids, read-only operation names, possible container values

\* the sequential answer of operation op on container value c (an uninterpreted function is enough:
\* what matters is that it depends on nothing but c and op)
Eval(c, op) == <<op, c>>

VARIABLES container, pc, cur, res
vars == <<container, pc, cur, res>>

Init == /\ container \in Values
        /\ pc  = [r \in Readers |-> "idle"]
        /\ cur = [r \in Readers |-> CHOOSE o \in Ops : TRUE]
        /\ res = [r \in Readers |-> <<>>]
Start(r, op) == /\ pc[r] \in {"idle", "done"}
                /\ pc' = [pc EXCEPT ![r] = "reading"] /\ cur' = [cur EXCEPT ![r] = op]
                /\ UNCHANGED <<container, res>>
\* a read-only operation reads the container at some point between its start and its end
Finish(r) == /\ pc[r] = "reading"
             /\ pc' = [pc EXCEPT ![r] = "done"] /\ res' = [res EXCEPT ![r] = Eval(container, cur[r])]
             /\ UNCHANGED <<container, cur>>
Next == \E r \in Readers : (\E op \in Ops : Start(r, op)) \/ Finish(r)
Spec == Init /\ [][Next]_vars

ReadersPure        == [][container' = container]_vars
ResultIsSequential == \A r \in Readers : pc[r] = "done" => res[r] = Eval(container, cur[r])
TypeOK == pc \in [Readers -> {"idle", "reading", "done"}]
=============================================================================
