------------------------------- MODULE MCBidiMap -------------------------------
(* C10: forward and inverse are mutual inverses in every reachable state, and    *)
(* every step is a step of the abstract one-to-one map (AbsMap!BidiPutAllowed).  *)
EXTENDS BidiMap, AbsMap
cfgB == [sorted |-> FALSE, cmp |-> "nat", linked |-> FALSE, bidi |-> TRUE, vsorted |-> FALSE, vcmp |-> "nat"]
MutualInverse == /\ \A k \in DOMAIN forward : HasK(inverse, forward[k]) /\ inverse[forward[k]] = k
                 /\ \A v \in DOMAIN inverse : HasK(forward, inverse[v]) /\ forward[inverse[v]] = v
SizesAgree == Cardinality(DOMAIN forward) = Cardinality(DOMAIN inverse)          \* Size = len(Keys) = len(Values)
\* entries in key order (the hash kinds are compared normalised by key)
Ent(f) == LET ks == SortSeq(SetToSeq(DOMAIN f), LAMBDA a, b : a < b) IN [i \in DOMAIN ks |-> <<ks[i], f[ks[i]]>>]
Refines ==
  [][ LET s == Ent(forward)  t == Ent(forward') IN
      CASE last'.op = "Put"    -> BidiPutAllowed(cfgB, s, last'.k, last'.v, t)
        [] last'.op = "Remove" -> RemoveAllowed(cfgB, s, last'.k, t)
        [] last'.op = "Clear"  -> t = <<>>
        [] OTHER -> TRUE ]_vars
View == <<forward, inverse>>
=============================================================================
