------------------------------- MODULE TraceHeap -------------------------------
(* Trace specification for BinaryHeap and PriorityQueue (family "heap", C06).   *)
(* State = the bag of contained elements, represented by Values().  Elements    *)
(* are records [p |-> priority, id |-> identity]; several comparators leave     *)
(* distinguishable elements tied.                                               *)
EXTENDS AbsHeap, Generic, Json, IOUtils

Trace == ndJsonDeserialize(IOEnv.TRACE)
Prop  == IOEnv.PROP

VARIABLES l, st, src
vars == <<l, st, src>>

\* the harness codes an element as 10*p + id in the argument list
El(v)  == [p |-> v \div 10, id |-> v % 10]
Els(vs) == [i \in DOMAIN vs |-> El(vs[i])]

TransOK(c, zero, bag, e, post) ==
  CASE e.op \in {"Push", "Enqueue"} -> PushAllowed(c, bag, Els(e.a.vs), post)
    [] e.op \in {"Pop", "Dequeue"}  -> PopAllowed(c, bag, e.r, post, zero)
    [] e.op = "Peek"                -> PeekOK(c, bag, e.r, zero) /\ SameBag(post, bag)
    [] e.op = "Clear"               -> post = <<>>
    [] e.op = "FromJSON"            -> IF e.r[1] THEN LoadAllowed(c, Els(e.a.vs), post) ELSE SameBag(post, bag)
    [] e.op = "Values"              -> SameBag(e.r[1], bag) /\ SameBag(post, bag)
    [] e.op = "Size"                -> e.r = <<Len(bag)>> /\ SameBag(post, bag)
    [] e.op = "Empty"               -> e.r = <<bag = <<>> >> /\ SameBag(post, bag)
    [] OTHER                        -> SameBag(post, bag)
\* Values() and iteration: permutations of the contents whose first element is the Peek element,
\* and the Peek element is one that no contained element precedes
ObsWF(c, zero, o) ==
  /\ o.size = Len(o.vals)
  /\ PeekOK(c, o.vals, o.peek, zero)
  /\ (o.hasiter => SameBag(o.iter, o.vals))             \* (the scale scripts walk the iterator in every 8th size only)
  /\ (o.vals # <<>> => o.vals[1] = o.peek[1] /\ (o.hasiter => o.iter[1] = o.peek[1]))

C06(pre, e) ==
  /\ Completed(e)
  /\ TransOK(e.cfg.cmp, e.cfg.zero, pre.vals, e, e.post.vals)
  /\ ObsWF(e.cfg.cmp, e.cfg.zero, e.post)

C15(pre, e) ==
  Completed(e) =>
    /\ SizeOK(e.kind, e.post, FALSE)
    /\ (e.op = "Clear" => e.post.vals = <<>> /\ e.post.size = 0 /\ e.post.empty)
    /\ PureOK(e)
C18(pre, e) == Completed(e) => PureOK(e) /\ (~e.mut => e.post = pre)

Obl(p, pre, e) ==
  CASE p = "C06" -> C06(pre, e)
    [] p = "C12" -> (e.op = "FromJSON" => C06(pre, e))
    [] p = "C15" -> C15(pre, e)
    [] p = "C17" -> SilentOK(e)
    [] p = "C18" -> C18(pre, e)

Init == l = 1 /\ st = 0 /\ src = 0
Step ==
  /\ l <= Len(Trace)
  /\ LET e   == Trace[l]
         pre == IF e.rs = 1 THEN e.pre ELSE IF e.rs = 2 THEN src ELSE st
     IN /\ IF Obl(Prop, pre, e) = TRUE THEN TRUE ELSE PrintT("REJECT|" \o ToString(l))
        /\ st' = IF e.obsbad THEN pre ELSE e.post
        /\ src' = IF e.rs = 1 THEN e.pre ELSE src
  /\ l' = l + 1
Spec == Init /\ [][Step]_vars
Accepted == TLCGet("stats").diameter - 1 = Len(Trace)
=============================================================================
