------------------------------- MODULE MCAVL -------------------------------
(* Bounded model checking of the AVL tree model: C01 refinement of AbsMap,   *)
(* C02 sorted walk and navigation, C07 shape and work bound, C15 size.        *)
EXTENDS AVL, AbsMap, Shape, Json
cfgT == [sorted |-> TRUE, cmp |-> "nat", linked |-> FALSE, bidi |-> FALSE, vsorted |-> FALSE, vcmp |-> "nat"]
E(t) == InOrder(t, t.root)
Refines ==
  [][ LET s == E(T)  t == E(T') IN
      CASE last'.op = "Put"    -> PutAllowed(cfgT, s, last'.k, last'.v, t)
        [] last'.op = "Remove" -> RemoveAllowed(cfgT, s, last'.k, t)
        [] last'.op = "Clear"  -> t = <<>>
        [] last'.op = "Get"    -> t = s
        [] OTHER -> TRUE ]_vars
Sorted == SortedOK(cfgT, E(T))
Probes == (CHOOSE m \in KeyU : \A k \in KeyU : m <= k) - 1 .. (CHOOSE m \in KeyU : \A k \in KeyU : m >= k) + 1
NavOK == \A p \in Probes :
           /\ FloorOK(cfgT, E(T), p, FloorT(T, T.root, p, Nil))
           /\ CeilingOK(cfgT, E(T), p, CeilingT(T, T.root, p, Nil))
           /\ GetN(T, T.root, p) = GetRet(cfgT, E(T), p, 0)
MinMaxOK == /\ MinOK(cfgT, E(T), IF T.root = Nil THEN <<0, FALSE>> ELSE <<T.n[Bottom(T, T.root, 0)].key, TRUE>>)
            /\ MaxOK(cfgT, E(T), IF T.root = Nil THEN <<0, FALSE>> ELSE <<T.n[Bottom(T, T.root, 1)].key, TRUE>>)
RECURSIVE Pre(_, _)
Pre(t, x) == IF x = Nil THEN <<>> ELSE <<x>> \o Pre(t, t.n[x].c0) \o Pre(t, t.n[x].c1)
Flat(t) == LET ord == Pre(t, t.root)
               ix(x) == IF x = Nil THEN 0 ELSE CHOOSE i \in DOMAIN ord : ord[i] = x
           IN [i \in DOMAIN ord |-> <<t.n[ord[i]].key, ix(t.n[ord[i]].c0), ix(t.n[ord[i]].c1), ix(t.n[ord[i]].parent)>>]
ShapeInv == AVLShapeOK(Flat(T))
WorkBound == [][ last'.op \in {"Get", "Put", "Remove"} => WorkOK("avl", 0, last'.n, last'.cmps) ]_vars
RECURSIVE CanonK(_, _)
CanonK(t, x) == IF x = Nil THEN <<>> ELSE <<t.n[x].key, t.n[x].b, CanonK(t, t.n[x].c0), CanonK(t, t.n[x].c1)>>
Fid == PrintT("S|" \o ToJson(CanonK(T, T.root)))
\* every generated transition of the model as <<from, op, key, to>> (fidelity of the EDGES; always TRUE)
FidEdge == PrintT("E|" \o ToJson(<<CanonK(T, T.root), last'.op, last'.k, CanonK(T', T'.root)>>))
=============================================================================
