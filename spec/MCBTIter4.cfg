SPECIFICATION ISpec
CONSTANTS
  KeyU = {1, 2, 3, 4, 5, 6, 7}
  ValU = {1}
  MaxNodes = 12
  M = 4
INVARIANT CursorInv
VIEW IView
CHECK_DEADLOCK FALSE
