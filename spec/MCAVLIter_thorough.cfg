SPECIFICATION ISpec
CONSTANTS
  KeyU = {1, 2, 3, 4, 5, 6, 7, 8}
  ValU = {1}
  MaxNodes = 8
INVARIANT CursorInv
VIEW IView
CHECK_DEADLOCK FALSE
