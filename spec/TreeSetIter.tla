------------------------------- MODULE TreeSetIter -------------------------------
(* Implementation-shaped model of sets/treeset/iterator.go: an integer `index`    *)
(* kept ALONGSIDE a red-black tree iterator (RBTIter); every call updates both.   *)
(* Checked: the two stay in step - Index() is the abstract cursor position and    *)
(* Value() the tree iterator's key at it (C08).                                   *)
EXTENDS RBTIter
VARIABLES index
tvars == <<T, last, it, pos, ret, index>>
TInit == IInit /\ index = -1
NextIdx(i) == IF i < Size(T) THEN i + 1 ELSE i
PrevIdx(i) == IF i >= 0 THEN i - 1 ELSE i
TDo(op, j, i) == Do(op, j) /\ index' = i
TNext == \/ (Build /\ UNCHANGED index) \/ (Open /\ index' = -1)
         \/ TDo("Next", NextIt(T, it), NextIdx(index)) \/ TDo("Prev", PrevIt(T, it), PrevIdx(index))
         \/ TDo("Begin", AtBegin, -1) \/ TDo("End", AtEnd, Size(T))
         \/ TDo("First", NextIt(T, AtBegin), NextIdx(-1)) \/ TDo("Last", PrevIt(T, AtEnd), PrevIdx(Size(T)))
TSpec == TInit /\ [][TNext]_tvars
InStep == Opened => index = pos /\ CursorInv
TView == <<IView, index>>
=============================================================================
