SPECIFICATION Spec
CONSTANTS
  KeyU = {0, 1, 2}
  ValU = {0, 1}
  Kind = "half"
INVARIANTS GetIsHistory SizeIsLive EachOnce SortedInv
PROPERTIES RemoveAbsent
CHECK_DEADLOCK FALSE
