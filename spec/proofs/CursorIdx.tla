------------------------------- MODULE CursorIdx -------------------------------
(* TLAPS proof: the index iterators (lists/arraylist/iterator.go and the eleven   *)
(* iterators of the same shape) keep  index in -1..size  and answer               *)
(* withinRange(index) for a container of EVERY size n, under any sequence of      *)
(* Next / Prev / Begin / End / First / Last; `pos` is the abstract cursor of      *)
(* AbsCursor (NextPos / PrevPos saturating at n and -1) and index = pos is        *)
(* inductive.  (NextTo / PrevTo are loops over Next / Prev.)  IdxIter.tla is the  *)
(* same iterator with element values, model checked up to length 4.               *)
EXTENDS Integers, TLAPS
CONSTANT N
ASSUME NNat == N \in Nat
VARIABLES index, pos, ret
vars == <<index, pos, ret>>
Within(i) == i >= 0 /\ i < N
NextI(i) == IF i < N THEN i + 1 ELSE i          \* if iterator.index < size { index++ }
PrevI(i) == IF i >= 0 THEN i - 1 ELSE i         \* if iterator.index >= 0 { index-- }
NextPos(p) == IF p < N THEN p + 1 ELSE N        \* AbsCursor
PrevPos(p) == IF p >= 0 THEN p - 1 ELSE -1
Init  == index = -1 /\ pos = -1 /\ ret = FALSE
DoNext  == index' = NextI(index) /\ pos' = NextPos(pos) /\ ret' = Within(index')
DoPrev  == index' = PrevI(index) /\ pos' = PrevPos(pos) /\ ret' = Within(index')
DoBegin == index' = -1 /\ pos' = -1 /\ ret' = FALSE
DoEnd   == index' = N /\ pos' = N /\ ret' = FALSE
DoFirst == index' = NextI(-1) /\ pos' = NextPos(-1) /\ ret' = Within(index')
DoLast  == index' = PrevI(N) /\ pos' = PrevPos(N) /\ ret' = Within(index')
Next == DoNext \/ DoPrev \/ DoBegin \/ DoEnd \/ DoFirst \/ DoLast
Inv == /\ index \in -1..N /\ pos \in -1..N /\ index = pos
       /\ ret \in BOOLEAN /\ (ret => Within(pos))
THEOREM InitInv == Init => Inv
  BY NNat DEF Init, Inv, Within
THEOREM NextInv == Inv /\ [Next]_vars => Inv'
  <1> SUFFICES ASSUME Inv, [Next]_vars PROVE Inv' OBVIOUS
  <1>1 CASE DoNext  BY <1>1, NNat DEF DoNext, Inv, NextI, NextPos, Within
  <1>2 CASE DoPrev  BY <1>2, NNat DEF DoPrev, Inv, PrevI, PrevPos, Within
  <1>3 CASE DoBegin BY <1>3, NNat DEF DoBegin, Inv, Within
  <1>4 CASE DoEnd   BY <1>4, NNat DEF DoEnd, Inv, Within
  <1>5 CASE DoFirst BY <1>5, NNat DEF DoFirst, Inv, NextI, NextPos, Within
  <1>6 CASE DoLast  BY <1>6, NNat DEF DoLast, Inv, PrevI, PrevPos, Within
  <1>7 CASE UNCHANGED vars BY <1>7 DEF vars, Inv, Within
  <1> QED BY <1>1, <1>2, <1>3, <1>4, <1>5, <1>6, <1>7 DEF Next
=============================================================================
