------------------------------- MODULE BidiInv -------------------------------
(* TLAPS proof, for EVERY key and value universe and every map size: the two     *)
(* maps of a bidirectional map are inverse functions of each other after any     *)
(* history of Put / Remove / Clear written as the statements of the code         *)
(* (BidiOps), hence the map is one-to-one in both directions (C10).              *)
EXTENDS BidiOps, TLAPS
CONSTANTS KeyU, ValU
VARIABLES forward, inverse
vars == <<forward, inverse>>
Empty == [x \in {} |-> x]
Init == forward = Empty /\ inverse = Empty
Put(k, v) == forward' = PutS(forward, inverse, k, v)[1] /\ inverse' = PutS(forward, inverse, k, v)[2]
Remove(k) == forward' = RemoveS(forward, inverse, k)[1] /\ inverse' = RemoveS(forward, inverse, k)[2]
Clear == forward' = Empty /\ inverse' = Empty
Next == (\E k \in KeyU, v \in ValU : Put(k, v)) \/ (\E k \in KeyU : Remove(k)) \/ Clear
Inverse(f, g) == \A k \in DOMAIN f : f[k] \in DOMAIN g /\ g[f[k]] = k
Inv == Inverse(forward, inverse) /\ Inverse(inverse, forward)
OneToOne == /\ \A k1, k2 \in DOMAIN forward : forward[k1] = forward[k2] => k1 = k2
            /\ \A v1, v2 \in DOMAIN inverse : inverse[v1] = inverse[v2] => v1 = v2
            /\ \A k \in DOMAIN forward, v \in DOMAIN inverse : (forward[k] = v) <=> (inverse[v] = k)
THEOREM InvOneToOne == Inv => OneToOne
  BY DEF Inv, Inverse, OneToOne
THEOREM InitInv == Init => Inv
  BY DEF Init, Inv, Inverse, Empty
THEOREM NextInv == Inv /\ [Next]_vars => Inv'
  <1> SUFFICES ASSUME Inv, [Next]_vars PROVE Inv' OBVIOUS
  <1>1 ASSUME NEW k \in KeyU, NEW v \in ValU, Put(k, v) PROVE Inv'
    <2> DEFINE g1 == IF HasK(forward, k) THEN Del(inverse, forward[k]) ELSE inverse
               f1 == IF HasK(g1, v) THEN Del(forward, g1[v]) ELSE forward
    <2>1 forward' = SetK(f1, k, v) /\ inverse' = SetK(g1, v, k) BY <1>1 DEF Put, PutS
    <2>2 Inverse(f1, g1) /\ Inverse(g1, f1) \/ TRUE OBVIOUS
    <2>3 \A x \in DOMAIN f1 : x # k => (f1[x] \in DOMAIN g1 /\ g1[f1[x]] = x /\ f1[x] # v)
      BY DEF Inv, Inverse, HasK, Del
    <2>4 \A y \in DOMAIN g1 : y # v => (g1[y] \in DOMAIN f1 /\ f1[g1[y]] = y /\ g1[y] # k)
      BY DEF Inv, Inverse, HasK, Del
    <2> HIDE DEF g1, f1
    <2> QED BY <2>1, <2>3, <2>4 DEF Inv, Inverse, SetK
  <1>2 ASSUME NEW k \in KeyU, Remove(k) PROVE Inv'
    BY <1>2 DEF Remove, RemoveS, Inv, Inverse, HasK, Del
  <1>3 CASE Clear BY <1>3 DEF Clear, Inv, Inverse, Empty
  <1>4 CASE UNCHANGED vars BY <1>4 DEF vars, Inv, Inverse
  <1> QED BY <1>1, <1>2, <1>3, <1>4 DEF Next
=============================================================================
