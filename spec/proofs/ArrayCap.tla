------------------------------- MODULE ArrayCap -------------------------------
(* TLAPS proof: the capacity arithmetic of lists/arraylist/arraylist.go keeps    *)
(* length <= capacity for EVERY length and every number of added values:         *)
(*   growBy(n): if len+n >= cap then cap := 2*(cap+n)      (then len := len+n)   *)
(*   shrink() : if len <= cap \div 4 then cap := len        (after a removal)    *)
(*   Clear    : len := 0, capacity kept                                          *)
(* (an indexed write past the capacity would panic: C17; the element content is  *)
(* the business of the ArrayList model, whose CapInv TLC checks up to length 5). *)
EXTENDS Integers, TLAPS
VARIABLES len, cap
vars == <<len, cap>>
GrowCap(l, c, n) == IF l + n >= c THEN 2 * (c + n) ELSE c
ShrinkCap(l, c)  == IF l <= c \div 4 THEN l ELSE c
Init   == len = 0 /\ cap = 0
Add(n) == n \in Nat /\ len' = len + n /\ cap' = GrowCap(len, cap, n)            \* Add / Insert / Set(size, v)
Remove == len > 0 /\ len' = len - 1 /\ cap' = ShrinkCap(len - 1, cap)
Clear  == len' = 0 /\ cap' = cap
Load(n) == n \in Nat /\ len' = n /\ cap' \in Nat /\ cap' >= n                   \* FromJSON: a fresh slice of at least n
Next   == (\E n \in Nat : Add(n) \/ Load(n)) \/ Remove \/ Clear
Inv    == len \in Nat /\ cap \in Nat /\ len <= cap
THEOREM InitInv == Init => Inv
  BY DEF Init, Inv
THEOREM NextInv == Inv /\ [Next]_vars => Inv'
  <1> SUFFICES ASSUME Inv, [Next]_vars PROVE Inv' OBVIOUS
  <1>1 ASSUME NEW n \in Nat, Add(n) PROVE Inv' BY <1>1 DEF Add, Inv, GrowCap
  <1>2 ASSUME NEW n \in Nat, Load(n) PROVE Inv' BY <1>2 DEF Load, Inv
  <1>3 CASE Remove BY <1>3 DEF Remove, Inv, ShrinkCap
  <1>4 CASE Clear BY <1>4 DEF Clear, Inv
  <1>5 CASE UNCHANGED vars BY <1>5 DEF vars, Inv
  <1> QED BY <1>1, <1>2, <1>3, <1>4, <1>5 DEF Next
=============================================================================
