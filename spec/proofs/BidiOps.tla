------------------------------- MODULE BidiOps -------------------------------
(* The four statements of HashBidiMap.Put / TreeBidiMap.Put and of Remove, as   *)
(* operators on two finite functions (shared by the TLC model BidiMap and by    *)
(* the TLAPS proof proofs/BidiInv).                                             *)
HasK(m, k) == k \in DOMAIN m
Del(m, k) == [x \in DOMAIN m \ {k} |-> m[x]]
SetK(m, k, v) == [x \in DOMAIN m \cup {k} |-> IF x = k THEN v ELSE m[x]]
PutS(f, g, k, v) ==
  LET g1 == IF HasK(f, k) THEN Del(g, f[k]) ELSE g            \* if valueByKey, ok := forward.Get(key); ok { inverse.Remove(valueByKey) }
      f1 == IF HasK(g1, v) THEN Del(f, g1[v]) ELSE f           \* if keyByValue, ok := inverse.Get(value); ok { forward.Remove(keyByValue) }
  IN <<SetK(f1, k, v), SetK(g1, v, k)>>                         \* forward.Put(key, value); inverse.Put(value, key)
RemoveS(f, g, k) == IF HasK(f, k) THEN <<Del(f, k), Del(g, f[k])>> ELSE <<f, g>>
=============================================================================
