------------------------------- MODULE RingInv -------------------------------
(* TLAPS proof: for every capacity Cap >= 1 the ring's index invariant           *)
(*   start, end in 0..Cap-1, size = calculateSize(start, end, full) in 0..Cap,   *)
(*   full <=> size = Cap                                                         *)
(* is inductive for the index arithmetic of RingIdx (Enqueue into a non-full     *)
(* and into a full buffer, Dequeue, Clear).  Checked by `tlapm` (55 obligations, *)
(* SMT back end) in bin/check C05; the claim level of C05 stays model checking.  *)
EXTENDS RingIdx, TLAPS
THEOREM InitInv == Init => Inv
  BY CapPos DEF Init, Inv, CalcSize
THEOREM NextInv == Inv /\ [Next]_vars => Inv'
  <1> SUFFICES ASSUME Inv, [Next]_vars PROVE Inv' OBVIOUS
  <1>1 CASE Deq BY <1>1, CapPos DEF Deq, Inv, CalcSize, Inc
  <1>2 CASE EnqNotFull
    <2>0 full = FALSE /\ size # Cap /\ Inc(end) \in 0..Cap-1 BY <1>2, CapPos DEF EnqNotFull, Inv, Inc
    <2>1 CASE Inc(end) = start
      <3>1 full' = TRUE /\ end' = start /\ start' = start BY <1>2, <2>1 DEF EnqNotFull
      <3>2 size' = Cap BY <1>2, <2>1, <3>1 DEF EnqNotFull, CalcSize
      <3> QED BY <3>1, <3>2, CapPos DEF Inv, CalcSize
    <2>2 CASE Inc(end) # start
      <3>1 full' = FALSE /\ end' = Inc(end) /\ start' = start BY <1>2, <2>0, <2>2 DEF EnqNotFull
      <3>2 size' = CalcSize(start, Inc(end), FALSE) BY <1>2, <3>1 DEF EnqNotFull
      <3>3 size' \in 0..Cap-1 BY <3>2, <2>0, <2>2, CapPos DEF CalcSize, Inv
      <3> QED BY <3>1, <3>2, <3>3, <2>0, CapPos DEF Inv, CalcSize
    <2> QED BY <2>1, <2>2
  <1>3 CASE EnqFull BY <1>3, CapPos DEF EnqFull, Inv, CalcSize, Inc
  <1>4 CASE Clear BY <1>4, CapPos DEF Clear, Inv, CalcSize
  <1>5 CASE UNCHANGED vars BY <1>5 DEF vars, Inv, CalcSize
  <1> QED BY <1>1, <1>2, <1>3, <1>4, <1>5 DEF Next
=============================================================================
