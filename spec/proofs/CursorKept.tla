------------------------------- MODULE CursorKept -------------------------------
(* TLAPS proof for the reading of C08 that the fourth round of seeded changes     *)
(* made explicit (DESIGN 14.4): an index iterator that is KEPT while the          *)
(* container is modified (its size n becomes any other natural number, the index  *)
(* stays what it was) is `stale`; Begin / End / First / Last re-anchor it, and    *)
(* from then on - until the next modification - it is again the abstract cursor   *)
(* of AbsCursor over the container's CURRENT size: index = pos in -1..n and the    *)
(* moves answer withinRange(index).  For every size, every modification and       *)
(* every interleaving of moves and modifications.  (What the relative moves do    *)
(* from a stale position is not specified: the invariant says nothing then.)      *)
EXTENDS Integers, TLAPS
VARIABLES n, index, pos, ret, stale
vars == <<n, index, pos, ret, stale>>
Within(i, m) == i >= 0 /\ i < m
NextI(i, m) == IF i < m THEN i + 1 ELSE i          \* if iterator.index < size { index++ }
PrevI(i) == IF i >= 0 THEN i - 1 ELSE i            \* if iterator.index >= 0 { index-- }
NextPos(p, m) == IF p < m THEN p + 1 ELSE m        \* AbsCursor
PrevPos(p) == IF p >= 0 THEN p - 1 ELSE -1
Init  == n \in Nat /\ index = -1 /\ pos = -1 /\ ret = FALSE /\ stale = FALSE
Modify(m) == m \in Nat /\ n' = m /\ stale' = TRUE /\ UNCHANGED <<index, pos, ret>>
DoNext  == index' = NextI(index, n) /\ pos' = NextPos(pos, n) /\ ret' = Within(index', n) /\ UNCHANGED <<n, stale>>
DoPrev  == index' = PrevI(index) /\ pos' = PrevPos(pos) /\ ret' = Within(index', n) /\ UNCHANGED <<n, stale>>
DoBegin == index' = -1 /\ pos' = -1 /\ ret' = FALSE /\ stale' = FALSE /\ n' = n
DoEnd   == index' = n /\ pos' = n /\ ret' = FALSE /\ stale' = FALSE /\ n' = n
DoFirst == index' = NextI(-1, n) /\ pos' = NextPos(-1, n) /\ ret' = Within(index', n) /\ stale' = FALSE /\ n' = n
DoLast  == index' = PrevI(n) /\ pos' = PrevPos(n) /\ ret' = Within(index', n) /\ stale' = FALSE /\ n' = n
Next == (\E m \in Nat : Modify(m)) \/ DoNext \/ DoPrev \/ DoBegin \/ DoEnd \/ DoFirst \/ DoLast
Inv == /\ n \in Nat /\ stale \in BOOLEAN
       /\ ~stale => /\ index \in -1..n /\ pos \in -1..n /\ index = pos
                    /\ ret \in BOOLEAN /\ (ret => Within(pos, n))
THEOREM InitInv == Init => Inv
  BY DEF Init, Inv, Within
THEOREM NextInv == Inv /\ [Next]_vars => Inv'
  <1> SUFFICES ASSUME Inv, [Next]_vars PROVE Inv' OBVIOUS
  <1>0 ASSUME NEW m \in Nat, Modify(m) PROVE Inv' BY <1>0 DEF Modify, Inv
  <1>1 CASE DoNext  BY <1>1 DEF DoNext, Inv, NextI, NextPos, Within
  <1>2 CASE DoPrev  BY <1>2 DEF DoPrev, Inv, PrevI, PrevPos, Within
  <1>3 CASE DoBegin BY <1>3 DEF DoBegin, Inv, Within
  <1>4 CASE DoEnd   BY <1>4 DEF DoEnd, Inv, Within
  <1>5 CASE DoFirst BY <1>5 DEF DoFirst, Inv, NextI, NextPos, Within
  <1>6 CASE DoLast  BY <1>6 DEF DoLast, Inv, PrevI, PrevPos, Within
  <1>7 CASE UNCHANGED vars BY <1>7 DEF vars, Inv, Within
  <1> QED BY <1>0, <1>1, <1>2, <1>3, <1>4, <1>5, <1>6, <1>7 DEF Next
=============================================================================
