SPECIFICATION Spec
CONSTANTS
  KeyU = {1, 2, 3, 4, 5}
  ValU = {1, 2}
  MaxNodes = 14
  M = 3
INVARIANTS BTInv Sorted GetOK MinMaxOK ShapeInv
PROPERTIES Refines WorkBound
VIEW View
CHECK_DEADLOCK FALSE
