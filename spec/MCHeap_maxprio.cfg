SPECIFICATION Spec
CONSTANTS
  Items <- ItemsDef
  CmpName = "maxprio"
INVARIANTS HeapOrdered
PROPERTIES Refines
VIEW View
CHECK_DEADLOCK FALSE
