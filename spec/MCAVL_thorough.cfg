SPECIFICATION Spec
CONSTANTS
  KeyU = {1, 2, 3, 4, 5, 6, 7, 8, 9, 10, 11, 12}
  ValU = {1}
  MaxNodes = 12
INVARIANTS AVLInv Sorted NavOK MinMaxOK ShapeInv
PROPERTIES Refines WorkBound
VIEW View
CHECK_DEADLOCK FALSE
