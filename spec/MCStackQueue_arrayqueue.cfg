SPECIFICATION Spec
CONSTANTS
  Kind = "arrayqueue"
  ValU = {0, 1, 2}
  MaxLen = 4
PROPERTIES Refines
CHECK_DEADLOCK FALSE
