------------------------------- MODULE AbsMap -------------------------------
(* C01 C02 C09 C10: key-value containers.  State = sequence of <<k, v>> in    *)
(* ENUMERATION order; cfg = [sorted, cmp, linked, bidi, vsorted, vcmp].       *)
EXTENDS Common
K(e) == e[1]
V(e) == e[2]
Keys(s) == [i \in DOMAIN s |-> K(s[i])]
Vals(s) == [i \in DOMAIN s |-> V(s[i])]
Hits(cfg, s, k) == {i \in DOMAIN s : KeyEq(cfg, K(s[i]), k)}
VHits(cfg, s, v) == {i \in DOMAIN s : IF cfg.vsorted THEN Eqv(cfg.vcmp, V(s[i]), v) ELSE V(s[i]) = v}
AsSet(s) == {s[i] : i \in DOMAIN s}
Drop(s, I) == SelectSeq([i \in DOMAIN s |-> <<i, s[i]>>], LAMBDA p : p[1] \notin I)   \* helper, pairs <<i,e>>
Without(s, I) == LET d == Drop(s, I) IN [j \in DOMAIN d |-> d[j][2]]

\* well-formedness of an observed state for its kind (C01 "exactly once", C02 order, C10 one-to-one)
\* what the kind's key / value equality looks at (Go == or the comparator's rank)
KKey(cfg, k) == IF cfg.sorted THEN Rank(cfg.cmp, k) ELSE k
VKey(cfg, v) == IF cfg.vsorted THEN Rank(cfg.vcmp, v) ELSE v
OneKeyEach(cfg, s) == Cardinality({KKey(cfg, K(s[i])) : i \in DOMAIN s}) = Len(s)      \* no two entries with KeyEq keys
SortedOK(cfg, s)   == cfg.sorted => Ascending(cfg.cmp, Keys(s))
OneToOne(cfg, s)   == cfg.bidi => Cardinality({VKey(cfg, V(s[i])) : i \in DOMAIN s}) = Len(s)   \* no two entries with equal values

\* Put on a plain map: replace in place (either representative of comparator-equal keys), or insert
\* at the sorted position / at the end (linked) / anywhere (hash).
PutAllowed(cfg, s, k, v, post) ==
  LET h == Hits(cfg, s, k) IN
  IF h # {} THEN LET i == CHOOSE i \in h : TRUE IN
                 /\ Len(post) = Len(s)
                 /\ \A j \in DOMAIN s : j # i => post[j] = s[j]          \* nobody moves
                 /\ V(post[i]) = v /\ K(post[i]) \in {k, K(s[i])}
  ELSE /\ Len(post) = Len(s) + 1
       /\ \E p \in DOMAIN post : /\ post[p] = <<k, v>>
                                 /\ Without(post, {p}) = s               \* the others keep their order
                                 /\ (cfg.linked => p = Len(post))        \* C09: new keys go last
RemoveAllowed(cfg, s, k, post) == post = Without(s, Hits(cfg, s, k))      \* absent key: unchanged
\* bidi Put: first drop the pair of k and the pair of v, then add <<k,v>> (C10)
BidiPutAllowed(cfg, s, k, v, post) ==
  LET hk   == Hits(cfg, s, k)
      hv   == VHits(cfg, s, v)
      rest == Without(s, hk \cup hv)
      ks   == {k} \cup {K(s[i]) : i \in hk}
      vs   == {v} \cup {V(s[i]) : i \in hv} IN
  /\ Len(post) = Len(rest) + 1
  /\ \E p \in DOMAIN post : K(post[p]) \in ks /\ V(post[p]) \in vs /\ Without(post, {p}) = rest
\* for hash kinds the observed enumeration order is arbitrary: compare as sets of pairs
SameMap(cfg, s, t) == IF cfg.sorted \/ cfg.linked THEN s = t ELSE AsSet(s) = AsSet(t) /\ Len(s) = Len(t)

GetRet(cfg, s, k, zero) == LET h == Hits(cfg, s, k) IN
                           IF h = {} THEN <<zero, FALSE>> ELSE <<V(s[CHOOSE i \in h : TRUE]), TRUE>>
GetKeyRet(cfg, s, v, zero) == LET h == VHits(cfg, s, v) IN
                           IF h = {} THEN <<zero, FALSE>> ELSE <<K(s[CHOOSE i \in h : TRUE]), TRUE>>
\* C02 navigation: ret = <<key, found>>
FloorOK(cfg, s, k, ret) ==
  LET below == {i \in DOMAIN s : Cmp(cfg.cmp, K(s[i]), k) <= 0} IN
  IF below = {} THEN ret[2] = FALSE
  ELSE ret[2] /\ \E i \in below : ret[1] = K(s[i]) /\ \A j \in below : Cmp(cfg.cmp, K(s[j]), K(s[i])) <= 0
CeilingOK(cfg, s, k, ret) ==
  LET above == {i \in DOMAIN s : Cmp(cfg.cmp, K(s[i]), k) >= 0} IN
  IF above = {} THEN ret[2] = FALSE
  ELSE ret[2] /\ \E i \in above : ret[1] = K(s[i]) /\ \A j \in above : Cmp(cfg.cmp, K(s[j]), K(s[i])) >= 0
MinOK(cfg, s, ret) == IF s = <<>> THEN ret[2] = FALSE ELSE ret[2] /\ ret[1] = K(s[1])        \* given SortedOK
MaxOK(cfg, s, ret) == IF s = <<>> THEN ret[2] = FALSE ELSE ret[2] /\ ret[1] = K(s[Len(s)])
=============================================================================
