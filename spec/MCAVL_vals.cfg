SPECIFICATION Spec
CONSTANTS
  KeyU = {1, 2, 3, 4, 5}
  ValU = {1, 2}
  MaxNodes = 5
INVARIANTS AVLInv Sorted NavOK MinMaxOK ShapeInv
PROPERTIES Refines WorkBound
VIEW View
CHECK_DEADLOCK FALSE
