------------------------------- MODULE MCStackQueue -------------------------------
(* C05 by composition: the four list-backed stacks and queues as the thin          *)
(* delegation layers they are in the code, over the ABSTRACT list (AbsSeq!ListPost, *)
(* which MCArrayList / MCSLL / MCDLL show the three list models refine):            *)
(*   ArrayStack       Push = list.Add(v)       Pop = Get(size-1); Remove(size-1)    *)
(*                    Values() = the list reversed                                  *)
(*   LinkedListStack  Push = list.Prepend(v)   Pop = Get(0); Remove(0)              *)
(*   ArrayQueue, LinkedListQueue  Enqueue = list.Add(v)  Dequeue = Get(0); Remove(0) *)
(* Checked: every step is a step of the LIFO / FIFO discipline over the sequence    *)
(* in removal order that Values() lists.                                            *)
EXTENDS AbsSeq
CONSTANTS Kind, ValU, MaxLen
VARIABLES list, last
vars == <<list, last>>
A(i, vs) == [i |-> i, j |-> 0, v |-> 0, vs |-> vs, cmp |-> "nat"]
ZeroV == 0
PutL(s, v) == CASE Kind = "linkedliststack" -> ListPost(s, "Prepend", A(0, <<v>>))
                [] OTHER -> ListPost(s, "Add", A(0, <<v>>))
TakeIdx(s) == IF Kind = "arraystack" THEN Len(s) - 1 ELSE 0
TakeL(s) == ListPost(s, "Remove", A(TakeIdx(s), <<>>))
PeekL(s) == GetRet(s, TakeIdx(s), ZeroV)
\* Values(): the array stack iterates its list backwards
ValuesOf(s) == IF Kind = "arraystack" THEN Rev(s) ELSE s
IsStack == Kind \in {"arraystack", "linkedliststack"}
Init == list = <<>> /\ last = [op |-> "New", v |-> 0, r |-> <<>>]
Put(v) == Len(list) < MaxLen /\ list' = PutL(list, v) /\ last' = [op |-> "Put", v |-> v, r |-> <<>>]
Take   == list' = TakeL(list) /\ last' = [op |-> "Take", v |-> 0, r |-> PeekL(list)]
Peek   == list' = list /\ last' = [op |-> "Peek", v |-> 0, r |-> PeekL(list)]
Clear  == list' = <<>> /\ last' = [op |-> "Clear", v |-> 0, r |-> <<>>]
Next == (\E v \in ValU : Put(v)) \/ Take \/ Peek \/ Clear
Spec == Init /\ [][Next]_vars
Refines ==
  [][ LET s == ValuesOf(list)  t == ValuesOf(list') IN
      /\ (last'.op = "Put"   => t = IF IsStack THEN PushPost(s, last'.v) ELSE EnqPost(s, last'.v))
      /\ (last'.op = "Take"  => t = TakePost(s) /\ last'.r = TakeRet(s, ZeroV))
      /\ (last'.op = "Peek"  => t = s /\ last'.r = TakeRet(s, ZeroV))
      /\ (last'.op = "Clear" => t = <<>>) ]_vars
=============================================================================
