------------------------------- MODULE LinkedHash -------------------------------
(* Implementation-shaped model of maps/linkedhashmap and sets/linkedhashset:      *)
(* a hash `table` (a function on the live keys) and an `ordering` list, updated   *)
(* by separate statements of Put/Add, Remove (IndexOf + Remove on the list) and   *)
(* Clear.  The set is the map whose values are all `present`.                     *)
EXTENDS Integers, Sequences, FiniteSets, TLC
CONSTANTS KeyU, ValU
VARIABLES table, ordering, last
vars == <<table, ordering, last>>

HasK(t, k) == k \in DOMAIN t
IndexOfL(o, k) == IF \E i \in DOMAIN o : o[i] = k THEN (CHOOSE i \in DOMAIN o : o[i] = k /\ \A j \in 1..i-1 : o[j] # k) - 1 ELSE -1
RemoveAtL(o, i) == IF i >= 0 /\ i < Len(o) THEN SubSeq(o, 1, i) \o SubSeq(o, i + 2, Len(o)) ELSE o
PutS(t, o, k, v) == <<[x \in DOMAIN t \cup {k} |-> IF x = k THEN v ELSE t[x]],         \* m.table[key] = value
                      IF HasK(t, k) THEN o ELSE Append(o, k)>>                           \* ordering.Append(key) only when new
RemoveS(t, o, k) == IF HasK(t, k)
                    THEN <<[x \in DOMAIN t \ {k} |-> t[x]], RemoveAtL(o, IndexOfL(o, k))>> \* delete; IndexOf; ordering.Remove
                    ELSE <<t, o>>
RECURSIVE AddAllS(_, _, _), RemoveAllS(_, _, _)
AddAllS(t, o, ks) == IF ks = <<>> THEN <<t, o>>
                     ELSE LET r == PutS(t, o, Head(ks), 1) IN AddAllS(r[1], r[2], Tail(ks))
RemoveAllS(t, o, ks) == IF ks = <<>> THEN <<t, o>>
                        ELSE LET r == RemoveS(t, o, Head(ks)) IN RemoveAllS(r[1], r[2], Tail(ks))

Init == table = <<>> /\ ordering = <<>> /\ last = [op |-> "New", k |-> 0, v |-> 0, ks |-> <<>>]
Step(op, k, v, ks, r) == table' = TLCEval(r[1]) /\ ordering' = r[2] /\ last' = [op |-> op, k |-> k, v |-> v, ks |-> ks]
KS == {<<>>} \cup {<<a>> : a \in KeyU} \cup {<<a, b>> : a, b \in KeyU}
Next == \/ \E k \in KeyU, v \in ValU : Step("Put", k, v, <<>>, PutS(table, ordering, k, v))
        \/ \E k \in KeyU : Step("Remove", k, 0, <<>>, RemoveS(table, ordering, k))
        \/ \E ks \in KS : Step("Add", 0, 0, ks, AddAllS(table, ordering, ks))
        \/ \E ks \in KS : Step("RemoveAll", 0, 0, ks, RemoveAllS(table, ordering, ks))
        \/ Step("Clear", 0, 0, <<>>, << <<>>, <<>> >>)
Spec == Init /\ [][Next]_vars
\* enumeration: walk the ordering list and look the values up in the table
Entries(t, o) == [i \in DOMAIN o |-> <<o[i], IF HasK(t, o[i]) THEN t[o[i]] ELSE -1>>]
=============================================================================
