------------------------------- MODULE BTIter -------------------------------
(* Implementation-shaped model of trees/btree/iterator.go over the pointer     *)
(* model BT: the iterator is (position, node, entry); Next searches the entry  *)
(* in its node, descends to the left-most leaf of the next child, else takes   *)
(* the next entry of the node, else climbs to the parent and searches there.   *)
(* Checked against the cursor of AbsCursor (C08).                              *)
EXTENDS BT, AbsCursor
VARIABLES it, pos, ret, stale     \* it = [position, node, key]
ivars == <<T, last, it, pos, ret, stale>>
Seq0 == IF T.root = Nil THEN <<>> ELSE InOrder(T, T.root)
RECURSIVE LeftLeaf(_, _), RightLeaf(_, _), ClimbN(_, _, _), ClimbP(_, _, _)
LeftLeaf(t, x) == IF IsLeaf(t, x) THEN x ELSE LeftLeaf(t, C(t, x)[1])
RightLeaf(t, x) == IF IsLeaf(t, x) THEN x ELSE RightLeaf(t, C(t, x)[Len(C(t, x))])
Btw(x, e) == [position |-> "between", node |-> x, key |-> e[1]]
AtEnd == [position |-> "end", node |-> Nil, key |-> 0]
AtBegin == [position |-> "begin", node |-> Nil, key |-> 0]
\* climb: go to the parent, search the current key there; e < len(entries) -> that entry
ClimbN(t, x, k) == LET p == t.n[x].parent IN
  IF p = Nil THEN AtEnd
  ELSE LET e == Search(t, p, k)[1] IN IF e < Len(E(t, p)) THEN Btw(p, E(t, p)[e + 1]) ELSE ClimbN(t, p, k)
ClimbP(t, x, k) == LET p == t.n[x].parent IN
  IF p = Nil THEN AtBegin
  ELSE LET e == Search(t, p, k)[1] IN IF e - 1 >= 0 THEN Btw(p, E(t, p)[e]) ELSE ClimbP(t, p, k)
NextIt(t, i) ==
  IF i.position = "end" THEN AtEnd
  ELSE IF i.position = "begin" THEN
       (IF t.size = 0 THEN AtEnd ELSE LET l == LeftLeaf(t, t.root) IN Btw(l, E(t, l)[1]))
  ELSE LET e == Search(t, i.node, i.key)[1] IN
       IF e + 1 < Len(C(t, i.node)) THEN LET l == LeftLeaf(t, C(t, i.node)[e + 2]) IN Btw(l, E(t, l)[1])
       ELSE IF e + 1 < Len(E(t, i.node)) THEN Btw(i.node, E(t, i.node)[e + 2])
       ELSE ClimbN(t, i.node, i.key)
PrevIt(t, i) ==
  IF i.position = "begin" THEN AtBegin
  ELSE IF i.position = "end" THEN
       (IF t.size = 0 THEN AtBegin ELSE LET r == RightLeaf(t, t.root) IN Btw(r, E(t, r)[Len(E(t, r))]))
  ELSE LET e == Search(t, i.node, i.key)[1] IN
       IF e < Len(C(t, i.node)) THEN LET r == RightLeaf(t, C(t, i.node)[e + 1]) IN Btw(r, E(t, r)[Len(E(t, r))])
       ELSE IF e - 1 >= 0 THEN Btw(i.node, E(t, i.node)[e])
       ELSE ClimbP(t, i.node, i.key)
Pr == [name |-> "true", m |-> 0, r |-> 0, i |-> 0]
IInit == Init /\ it = [position |-> "closed", node |-> Nil, key |-> 0] /\ pos = -1 /\ ret = FALSE /\ stale = FALSE
Build == it.position = "closed" /\ Next /\ UNCHANGED <<it, pos, ret, stale>>
Open == it.position = "closed" /\ it' = AtBegin /\ pos' = -1 /\ ret' = FALSE /\ UNCHANGED <<T, last, stale>>
Opened == it.position # "closed"
\* kept iterators (DESIGN 14.4, as in RBTIter): the tree is modified while the iterator exists; only the absolute jumps are
\* specified (and modelled) from a stale iterator, and they anchor it again
Absolute(op) == op \in {"Begin", "End", "First", "Last"}
Mutate == Opened /\ Next /\ stale' = TRUE /\ UNCHANGED <<it, pos, ret>>
Do(op, j) == /\ Opened /\ (~stale \/ Absolute(op)) /\ it' = j /\ pos' = Move(Seq0, pos, op, Pr)
             /\ ret' = (j.position = "between") /\ stale' = FALSE /\ UNCHANGED <<T, last>>
INext == \/ Build \/ Open \/ Mutate
         \/ Do("Next", NextIt(T, it)) \/ Do("Prev", PrevIt(T, it))
         \/ Do("Begin", AtBegin) \/ Do("End", AtEnd)
         \/ Do("First", NextIt(T, AtBegin)) \/ Do("Last", PrevIt(T, AtEnd))
ISpec == IInit /\ [][INext]_ivars
CursorInv == (Opened /\ ~stale) =>
   /\ (it.position = "between") = Inside(Seq0, pos)
   /\ (it.position = "between" => it.key = Seq0[pos + 1][1] /\ \E j \in DOMAIN E(T, it.node) : E(T, it.node)[j][1] = it.key)
   /\ (it.position = "begin" => pos = -1) /\ (it.position = "end" => pos = Len(Seq0))
   /\ (ret => Inside(Seq0, pos))
IView == IF stale THEN <<Canon(T, T.root), "stale", 0, 0>> ELSE <<Canon(T, T.root), it.position, it.key, pos>>
=============================================================================
