---- MODULE MCAlias_TTrace_1790414541 ----
EXTENDS MCAlias, Sequences, TLCExt, Toolbox, Naturals, TLC

_expression ==
    LET MCAlias_TEExpression == INSTANCE MCAlias_TEExpression
    IN MCAlias_TEExpression!expression
----

_trace ==
    LET MCAlias_TETrace == INSTANCE MCAlias_TETrace
    IN MCAlias_TETrace!trace
----

_inv ==
    ~(
        TLCGet("level") = Len(_TETrace)
        /\
        mem = (<<<<>>, <<>>, <<>>, <<>>>>)
        /\
        kind = ("snapshot")
        /\
        regs = ({1})
        /\
        cont = (1)
    )
----

_init ==
    /\ cont = _TETrace[1].cont
    /\ regs = _TETrace[1].regs
    /\ kind = _TETrace[1].kind
    /\ mem = _TETrace[1].mem
----

_next ==
    /\ \E i,j \in DOMAIN _TETrace:
        /\ \/ /\ j = i + 1
              /\ i = TLCGet("level")
        /\ cont  = _TETrace[i].cont
        /\ cont' = _TETrace[j].cont
        /\ regs  = _TETrace[i].regs
        /\ regs' = _TETrace[j].regs
        /\ kind  = _TETrace[i].kind
        /\ kind' = _TETrace[j].kind
        /\ mem  = _TETrace[i].mem
        /\ mem' = _TETrace[j].mem

\* Uncomment the ASSUME below to write the states of the error trace
\* to the given file in Json format. Note that you can pass any tuple
\* to `JsonSerialize`. For example, a sub-sequence of _TETrace.
    \* ASSUME
    \*     LET J == INSTANCE Json
    \*         IN J!JsonSerialize("MCAlias_TTrace_1790414541.json", _TETrace)

=============================================================================

 Note that you can extract this module `MCAlias_TEExpression`
  to a dedicated file to reuse `expression` (the module in the 
  dedicated `MCAlias_TEExpression.tla` file takes precedence 
  over the module `MCAlias_TEExpression` below).

---- MODULE MCAlias_TEExpression ----
EXTENDS MCAlias, Sequences, TLCExt, Toolbox, Naturals, TLC

expression == 
    [
        \* To hide variables of the `MCAlias` spec from the error trace,
        \* remove the variables below.  The trace will be written in the order
        \* of the fields of this record.
        cont |-> cont
        ,regs |-> regs
        ,kind |-> kind
        ,mem |-> mem
        
        \* Put additional constant-, state-, and action-level expressions here:
        \* ,_stateNumber |-> _TEPosition
        \* ,_contUnchanged |-> cont = cont'
        
        \* Format the `cont` variable as Json value.
        \* ,_contJson |->
        \*     LET J == INSTANCE Json
        \*     IN J!ToJson(cont)
        
        \* Lastly, you may build expressions over arbitrary sets of states by
        \* leveraging the _TETrace operator.  For example, this is how to
        \* count the number of times a spec variable changed up to the current
        \* state in the trace.
        \* ,_contModCount |->
        \*     LET F[s \in DOMAIN _TETrace] ==
        \*         IF s = 1 THEN 0
        \*         ELSE IF _TETrace[s].cont # _TETrace[s-1].cont
        \*             THEN 1 + F[s-1] ELSE F[s-1]
        \*     IN F[_TEPosition - 1]
    ]

=============================================================================



Parsing and semantic processing can take forever if the trace below is long.
 In this case, it is advised to uncomment the module below to deserialize the
 trace from a generated binary file.

\*
\*---- MODULE MCAlias_TETrace ----
\*EXTENDS MCAlias, IOUtils, TLC
\*
\*trace == IODeserialize("MCAlias_TTrace_1790414541.bin", TRUE)
\*
\*=============================================================================
\*

---- MODULE MCAlias_TETrace ----
EXTENDS MCAlias, TLC

trace == 
    <<
    ([mem |-> <<<<>>, <<>>, <<>>, <<>>>>,kind |-> "init",regs |-> {},cont |-> 1]),
    ([mem |-> <<<<>>, <<>>, <<>>, <<>>>>,kind |-> "snapshot",regs |-> {1},cont |-> 1])
    >>
----


=============================================================================

---- CONFIG MCAlias_TTrace_1790414541 ----
CONSTANTS
    ElemU = { 0 , 1 }
    MaxLen = 2
    Aliasing = TRUE

INVARIANT
    _inv

CHECK_DEADLOCK
    \* CHECK_DEADLOCK off because of PROPERTY or INVARIANT above.
    FALSE

INIT
    _init

NEXT
    _next

CONSTANT
    _TETrace <- _trace

ALIAS
    _expression
=============================================================================
\* Generated on Sat Sep 26 09:22:22 UTC 2026