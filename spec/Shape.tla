------------------------------- MODULE Shape -------------------------------
(* C07: shape predicates on the EXPORTED structure of the three balanced trees *)
(* and the logarithmic bounds on comparator calls per operation.               *)
(* A binary tree is logged as a sequence of <<key, left, right, parent>> in    *)
(* pre-order (indices into the sequence, 0 = nil, the root is node 1); a       *)
(* B-tree as a sequence of [k |-> keys, c |-> child indices, p |-> parent].    *)
EXTENDS Integers, Sequences, FiniteSets, Bounds

Max2(a, b) == IF a > b THEN a ELSE b
Min2(a, b) == IF a < b THEN a ELSE b

RECURSIVE Longest(_, _), Shortest(_, _)
\* number of nodes on the longest / shortest path from node i down to a nil leaf
Longest(n, i)  == IF i = 0 THEN 0 ELSE 1 + Max2(Longest(n, n[i][2]), Longest(n, n[i][3]))
Shortest(n, i) == IF i = 0 THEN 0 ELSE 1 + Min2(Shortest(n, n[i][2]), Shortest(n, n[i][3]))
Root(n) == IF n = <<>> THEN 0 ELSE 1

\* red-black: no root-to-leaf path more than twice as long as another; exactly Size() nodes;
\* parent links mirror child links
RBShapeOK(n, size) ==
  /\ Len(n) = size
  /\ Longest(n, Root(n)) <= 2 * Shortest(n, Root(n))
  /\ (n # <<>> => n[1][4] = 0)
  /\ \A i \in DOMAIN n : /\ (n[i][2] # 0 => n[n[i][2]][4] = i)
                         /\ (n[i][3] # 0 => n[n[i][3]][4] = i)

\* AVL: sibling subtree heights differ by at most one
AVLShapeOK(n) ==
  \A i \in DOMAIN n : LET d == Longest(n, n[i][2]) - Longest(n, n[i][3]) IN d >= -1 /\ d <= 1

\* B-tree of order m
RECURSIVE Depth(_, _)
Depth(bt, i) == IF bt[i].p = 0 THEN 1 ELSE 1 + Depth(bt, bt[i].p)
CeilHalf(m) == (m + 1) \div 2
BTShapeOK(bt, m, height) ==
  /\ \A i \in DOMAIN bt :
       /\ Len(bt[i].c) <= m                                           \* at most m children
       /\ Len(bt[i].k) <= m - 1                                       \* ... hence at most m-1 keys (a leaf has k+1 notional children)
       /\ (bt[i].p # 0 => Len(bt[i].k) >= CeilHalf(m) - 1)             \* non-root: at least ceil(m/2)-1 keys
       /\ (Len(bt[i].c) > 0 => Len(bt[i].k) = Len(bt[i].c) - 1)        \* k children => k-1 keys
       /\ \A j \in DOMAIN bt[i].c : bt[i].c[j] # 0 /\ bt[bt[i].c[j]].p = i
  /\ LET leaves == {i \in DOMAIN bt : Len(bt[i].c) = 0} IN
       /\ \A i, j \in leaves : Depth(bt, i) = Depth(bt, j)             \* all leaves at the same depth
       /\ IF bt = <<>> THEN height = 0
          ELSE \A i \in leaves : height = Depth(bt, i)                 \* Height() = number of levels

ShapeOK(cfg, sh, size, height) ==
  /\ sh.ok = TRUE
  /\ CASE sh.t = "rb"  -> RBShapeOK(sh.n, size)
       [] sh.t = "avl" -> AVLShapeOK(sh.n)
       [] sh.t = "bt"  -> BTShapeOK(sh.bt, cfg.m, height)
       [] OTHER        -> TRUE

\* ---- comparator work per Get / Put / Remove on a tree with n keys --------------------------------
RECURSIVE FloorLog2(_)
FloorLog2(x) == IF x <= 1 THEN 0 ELSE 1 + FloorLog2(x \div 2)
\* largest integer c with c <= 2*log2(n+1)+2, exact:  floor(2*log2(n+1)) = floor(log2((n+1)^2))
RBMax(n) == LET k == IF n > 30000 THEN 30000 ELSE n IN 2 + FloorLog2((k + 1) * (k + 1))
AVLOK(n, c) == c <= 2 \/ (c <= Len(AVLMinN) /\ n >= AVLMinN[c])
BTOK(m, n, c) == LET row == BTMinN[m] IN c < 1 \/ (c <= Len(row) /\ row[c] < BoundCap /\ n >= row[c])
WorkOK(tree, m, n, c) ==
  CASE tree = "rb"  -> c <= RBMax(n)
    [] tree = "rb6" -> c <= 6 * RBMax(n)       \* TreeBidiMap.Put = six tree operations on its two trees
    [] tree = "avl" -> AVLOK(n, c)
    [] tree = "bt"  -> BTOK(m, n, c)
    [] OTHER        -> TRUE
=============================================================================
