------------------------------- MODULE AbsSeq -------------------------------
(* C03: the three lists are one mathematical sequence.                        *)
(* C05: stacks / queues / ring are views of a sequence with a discipline.     *)
EXTENDS Common

\* deterministic part: the unique post-state of a list operation (a = argument record)
ListPost(s, op, a) ==
  CASE op \in {"Add", "Append"} -> s \o a.vs
    [] op = "Prepend"           -> a.vs \o s
    [] op = "Insert"            -> IF a.i >= 0 /\ a.i <= Len(s) THEN SpliceAt(s, a.i, a.vs) ELSE s
    [] op = "Remove"            -> IF InRange(s, a.i) THEN DropAt(s, a.i) ELSE s
    [] op = "Set"               -> IF InRange(s, a.i) THEN SetAtIdx(s, a.i, a.v)
                                   ELSE IF a.i = Len(s) THEN Append(s, a.v) ELSE s
    [] op = "Swap"              -> IF InRange(s, a.i) /\ InRange(s, a.j) THEN SwapAt(s, a.i, a.j) ELSE s
    [] op = "Clear"             -> <<>>
    [] OTHER                    -> s          \* observers
\* Sort is the only nondeterministic list operation: ties may land in any order
ListAllowed(s, op, a, post) ==
  IF op = "Sort" THEN SameBag(s, post) /\ NonDecreasing(a.cmp, post)
  ELSE post = ListPost(s, op, a)

GetRet(s, i, zero)   == IF InRange(s, i) THEN <<At(s, i), TRUE>> ELSE <<zero, FALSE>>
ContainsRet(s, vs)   == \A i \in DOMAIN vs : vs[i] \in Members(s)      \* TRUE for no arguments

\* ---- C05 disciplines; state is the sequence in REMOVAL order (what Values() must list) ----
PushPost(s, v)        == <<v>> \o s                      \* stack: newest first
EnqPost(s, v)         == Append(s, v)                    \* queue: oldest first
RingEnqPost(s, c, v)  == (IF Len(s) = c THEN Tail(s) ELSE s) \o <<v>>   \* drops exactly the oldest
TakePost(s)           == IF s = <<>> THEN s ELSE Tail(s) \* Pop / Dequeue
TakeRet(s, zero)      == IF s = <<>> THEN <<zero, FALSE>> ELSE <<Head(s), TRUE>>   \* also Peek
RingFull(s, c)        == Len(s) = c
=============================================================================
