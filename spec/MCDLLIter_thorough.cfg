SPECIFICATION ISpec
CONSTANTS
  MaxLen = 4
  Vals = {1, 2}
INVARIANTS CursorInv NoIterPanic
VIEW IView
CHECK_DEADLOCK FALSE
