SPECIFICATION Spec
CONSTANTS
  Cap = 6
  Vals = {1, 2, 3}
INVARIANTS IndexInv FullIffSizeCap SizeAgrees
PROPERTIES Refines IdxRefines
VIEW View
CHECK_DEADLOCK FALSE
