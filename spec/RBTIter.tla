------------------------------- MODULE RBTIter -------------------------------
(* Implementation-shaped model of trees/redblacktree/iterator.go over the       *)
(* pointer model RBT: the iterator is (position in {begin, between, end}, node) *)
(* and moves by Left / Right / Parent links (successor: left-most of the right  *)
(* subtree, else climb while coming from the right).  TreeMap, TreeSet and      *)
(* TreeBidiMap iterators delegate to it.  Checked against the cursor of         *)
(* AbsCursor (C08): `pos` is the abstract position, carried as a ghost.         *)
EXTENDS RBT, AbsCursor
VARIABLES it, pos, ret, stale  \* it = [position, node]; pos = ghost abstract cursor; ret = last return;
                               \* stale = the tree was modified since the iterator was last anchored
ivars == <<T, last, it, pos, ret, stale>>
Seq0 == InOrder(T, T.root)
RECURSIVE ClimbNext(_, _), ClimbPrev(_, _)
ClimbNext(t, x) == IF Parent(t, x) = Nil THEN Nil ELSE IF x = Left(t, Parent(t, x)) THEN Parent(t, x) ELSE ClimbNext(t, Parent(t, x))
ClimbPrev(t, x) == IF Parent(t, x) = Nil THEN Nil ELSE IF x = Right(t, Parent(t, x)) THEN Parent(t, x) ELSE ClimbPrev(t, Parent(t, x))
Between(x) == [position |-> "between", node |-> x]
AtEnd == [position |-> "end", node |-> Nil]
AtBegin == [position |-> "begin", node |-> Nil]
NextIt(t, i) ==
  IF i.position = "end" THEN AtEnd
  ELSE IF i.position = "begin" THEN (IF t.root = Nil THEN AtEnd ELSE Between(LeftMost(t, t.root)))
  ELSE IF Right(t, i.node) # Nil THEN Between(LeftMost(t, Right(t, i.node)))
  ELSE LET c == ClimbNext(t, i.node) IN IF c = Nil THEN AtEnd ELSE Between(c)
PrevIt(t, i) ==
  IF i.position = "begin" THEN AtBegin
  ELSE IF i.position = "end" THEN (IF t.root = Nil THEN AtBegin ELSE Between(RightMost(t, t.root)))
  ELSE IF Left(t, i.node) # Nil THEN Between(RightMost(t, Left(t, i.node)))
  ELSE LET c == ClimbPrev(t, i.node) IN IF c = Nil THEN AtBegin ELSE Between(c)
\* NextTo / PrevTo: for iterator.Next() { if f(key, value) { return true } } return false
Pr == [name |-> "keymod", m |-> 2, r |-> 1, i |-> 0]
RECURSIVE NextToIt(_, _), PrevToIt(_, _)
NextToIt(t, i) == LET j == NextIt(t, i) IN
  IF j.position # "between" THEN j ELSE IF Holds(Pr, 0, t.n[j.node].key, t.n[j.node].val) THEN j ELSE NextToIt(t, j)
PrevToIt(t, i) == LET j == PrevIt(t, i) IN
  IF j.position # "between" THEN j ELSE IF Holds(Pr, 0, t.n[j.node].key, t.n[j.node].val) THEN j ELSE PrevToIt(t, j)

IInit == Init /\ it = [position |-> "closed", node |-> Nil] /\ pos = -1 /\ ret = FALSE /\ stale = FALSE
Build == it.position = "closed" /\ Next /\ UNCHANGED <<it, pos, ret, stale>>
Open == it.position = "closed" /\ it' = AtBegin /\ pos' = -1 /\ ret' = FALSE /\ UNCHANGED <<T, last, stale>>
Opened == it.position # "closed"
\* Kept iterators (DESIGN 14.4): the tree is modified while the iterator exists.  The iterator keeps its fields (its node
\* may have left the tree or moved); what the relative moves do then is unspecified and not modelled; Begin / End / First /
\* Last assign the fields afresh from the tree as it is now, which anchors the iterator again.
Absolute(op) == op \in {"Begin", "End", "First", "Last"}
Mutate == Opened /\ Next /\ stale' = TRUE /\ UNCHANGED <<it, pos, ret>>
Do(op, j) == /\ Opened /\ (~stale \/ Absolute(op))
             /\ it' = j /\ pos' = Move(Seq0, pos, op, Pr)
             /\ ret' = (j.position = "between") /\ stale' = FALSE /\ UNCHANGED <<T, last>>
INext == \/ Build \/ Open \/ Mutate
         \/ Do("Next", NextIt(T, it)) \/ Do("Prev", PrevIt(T, it))
         \/ Do("Begin", AtBegin) \/ Do("End", AtEnd)
         \/ Do("First", NextIt(T, AtBegin)) \/ Do("Last", PrevIt(T, AtEnd))
         \/ Do("NextTo", NextToIt(T, it)) \/ Do("PrevTo", PrevToIt(T, it))
ISpec == IInit /\ [][INext]_ivars
\* refinement of the cursor: the concrete iterator state is a function of the abstract position
CursorInv == (Opened /\ ~stale) =>
   /\ (it.position = "between") = Inside(Seq0, pos)
   /\ (it.position = "between" => <<T.n[it.node].key, T.n[it.node].val>> = Seq0[pos + 1])    \* Key(), Value()
   /\ (it.position = "begin" => pos = -1) /\ (it.position = "end" => pos = Len(Seq0))
   /\ (ret => Inside(Seq0, pos))
\* (a stale iterator's fields are dead until the next absolute jump overwrites them: they are left out of the view)
IView == IF stale THEN <<Canon(T, T.root), "stale", 0, 0>>
         ELSE <<Canon(T, T.root), it.position, IF it.node = Nil THEN 0 ELSE T.n[it.node].key, pos>>
=============================================================================
