SPECIFICATION SimSpec
CONSTANTS
  KeyU = {1, 2, 3, 4, 5, 6, 7, 8, 9, 10, 11, 12, 13, 14, 15, 16, 17, 18, 19, 20, 21, 22, 23, 24, 25, 26, 27, 28, 29, 30, 31, 32, 33, 34, 35, 36, 37, 38, 39, 40, 41, 42, 43, 44, 45, 46, 47, 48}
  ValU = {1}
  MaxNodes = 48
  SimDepth = 160
INVARIANTS AVLInv Sorted MinMaxOK ShapeInv Dump
CHECK_DEADLOCK FALSE
