------------------------------- MODULE TraceShape -------------------------------
(* Trace specification for large balanced trees (family "shape", C07).            *)
(* Operation events: op in {Get, Put, Remove} with n = Size() when the call       *)
(* started and cmps = comparator calls it made  ->  Shape!WorkOK.                 *)
(* Checkpoint events (op = "Shape"): the exported structure as a flat pre-order   *)
(* node array.  Binary trees: <<key, left, right, parent, longest, shortest>>     *)
(* where longest / shortest are the path lengths (in nodes) down to a nil leaf as *)
(* computed by the harness; the spec re-checks them LOCALLY (each node against    *)
(* its children), so the whole check is linear in n, and then states the shape    *)
(* property on them.  B-tree: <<keys, children, parent, depth>> per node plus the *)
(* child index lists.                                                             *)
EXTENDS Shape, Generic, Json, IOUtils

Trace == ndJsonDeserialize(IOEnv.TRACE)
Prop  == IOEnv.PROP

VARIABLES l
vars == <<l>>

Lg(n, i) == IF i = 0 THEN 0 ELSE n[i][5]
Sh(n, i) == IF i = 0 THEN 0 ELSE n[i][6]
\* the logged path lengths are the true ones (induction over the tree, checked node by node)
PathsOK(n) == \A i \in DOMAIN n :
                 /\ n[i][5] = 1 + Max2(Lg(n, n[i][2]), Lg(n, n[i][3]))
                 /\ n[i][6] = 1 + Min2(Sh(n, n[i][2]), Sh(n, n[i][3]))
                 /\ (n[i][2] # 0 => n[i][2] > i) /\ (n[i][3] # 0 => n[i][3] > i)      \* pre-order: no cycles
BigRBOK(n, size) ==
  /\ PathsOK(n)
  /\ Len(n) = size                                                   \* exactly Size() nodes
  /\ (n # <<>> => n[1][5] <= 2 * n[1][6] /\ n[1][4] = 0)             \* longest root-to-leaf path <= 2 x shortest
  /\ \A i \in DOMAIN n : /\ (n[i][2] # 0 => n[n[i][2]][4] = i)       \* parent links mirror child links
                         /\ (n[i][3] # 0 => n[n[i][3]][4] = i)
BigAVLOK(n) ==
  /\ PathsOK(n)
  /\ \A i \in DOMAIN n : LET d == Lg(n, n[i][2]) - Lg(n, n[i][3]) IN d >= -1 /\ d <= 1
\* bt[i] = <<number of keys, number of children, parent, depth>>, ch[i] = child indices
BigBTOK(bt, ch, m, height) ==
  /\ \A i \in DOMAIN bt :
       /\ bt[i][2] <= m /\ bt[i][1] <= m - 1
       /\ (bt[i][3] # 0 => bt[i][1] >= CeilHalf(m) - 1)
       /\ (bt[i][2] > 0 => bt[i][1] = bt[i][2] - 1)
       /\ Len(ch[i]) = bt[i][2]
       /\ \A j \in DOMAIN ch[i] : ch[i][j] # 0 /\ bt[ch[i][j]][3] = i /\ bt[ch[i][j]][4] = bt[i][4] + 1
       /\ (bt[i][3] = 0 => bt[i][4] = 1)
       /\ (bt[i][2] = 0 => bt[i][4] = height)                          \* every leaf at depth Height()
  /\ (bt = <<>> => height = 0)

C07(e) ==
  /\ Completed(e)
  /\ IF e.op = "Shape"
     THEN /\ e.shape.ok = TRUE
          /\ CASE e.shape.t = "rb"  -> BigRBOK(e.shape.bin, e.size)
               [] e.shape.t = "avl" -> BigAVLOK(e.shape.bin)
               [] e.shape.t = "bt"  -> BigBTOK(e.shape.bt, e.shape.ch, e.cfg.m, e.shape.height)
               [] OTHER -> TRUE
     ELSE WorkOK(e.cfg.tree, e.cfg.m, e.n, e.cmps)

Obl(p, e) ==
  CASE p = "C07" -> C07(e)
    [] p = "C17" -> Completed(e) /\ e.out = 0

Init == l = 1
Step ==
  /\ l <= Len(Trace)
  /\ IF Obl(Prop, Trace[l]) = TRUE THEN TRUE ELSE PrintT("REJECT|" \o ToString(l))
  /\ l' = l + 1
Spec == Init /\ [][Step]_vars
Accepted == TLCGet("stats").diameter - 1 = Len(Trace)
=============================================================================
