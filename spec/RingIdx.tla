------------------------------- MODULE RingIdx -------------------------------
(* The index arithmetic of queues/circularbuffer/circularbuffer.go alone        *)
(* (start, end, full, size for an ARBITRARY capacity Cap >= 1), abstracted from  *)
(* the element values.  MCRing checks that the full ring model (Ring.tla) steps  *)
(* according to this module (IdxRefines); spec/proofs/RingInv.tla proves with    *)
(* TLAPS that Inv is an inductive invariant of it for EVERY capacity.            *)
EXTENDS Integers
CONSTANT Cap
ASSUME CapPos == Cap \in Nat /\ Cap >= 1
VARIABLES start, end, full, size
vars == <<start, end, full, size>>
CalcSize(s, e, f) == IF e < s THEN Cap - s + e ELSE IF e = s THEN (IF f THEN Cap ELSE 0) ELSE e - s
Inc(i) == IF i + 1 >= Cap THEN 0 ELSE i + 1
Init == start = 0 /\ end = 0 /\ full = FALSE /\ size = 0
Deq == /\ size # 0 /\ start' = Inc(start) /\ full' = FALSE /\ size' = size - 1 /\ UNCHANGED end
EnqNotFull == /\ size # Cap /\ end' = Inc(end) /\ full' = (IF Inc(end) = start THEN TRUE ELSE full)
              /\ size' = CalcSize(start, Inc(end), full') /\ UNCHANGED start
EnqFull == /\ size = Cap
           /\ LET s1 == Inc(start) IN
              /\ start' = s1 /\ end' = Inc(end)
              /\ full' = (IF Inc(end) = s1 THEN TRUE ELSE FALSE)
              /\ size' = CalcSize(s1, Inc(end), full')
Clear == start' = 0 /\ end' = 0 /\ full' = FALSE /\ size' = 0
Next == Deq \/ EnqNotFull \/ EnqFull \/ Clear
Inv == /\ start \in 0..Cap-1 /\ end \in 0..Cap-1 /\ full \in BOOLEAN /\ size \in 0..Cap
       /\ size = CalcSize(start, end, full)
       /\ (full <=> size = Cap)
Spec == Init /\ [][Next]_vars
=============================================================================
