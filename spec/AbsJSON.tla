------------------------------- MODULE AbsJSON -------------------------------
(* C11 / C12: what a successful load must leave behind.  `ref` is the reference *)
(* decoding of the input text (elements, or <<key, value>> pairs, in textual    *)
(* order; duplicate keys allowed), `post` the container content afterwards in   *)
(* iteration order, cfg.disc the ordering discipline of the kind.               *)
EXTENDS AbsSet
LastIn(S) == CHOOSE i \in S : \A j \in S : j <= i
RKeys(ref) == {ref[i][1] : i \in DOMAIN ref}
LastVal(ref, k) == ref[LastIn({i \in DOMAIN ref : ref[i][1] = k})][2]       \* duplicate keys: last wins
Graph(ref) == {<<k, LastVal(ref, k)>> : k \in RKeys(ref)}
PKeys(post) == [i \in DOMAIN post |-> post[i][1]]
setcfg(cfg) == [sorted |-> cfg.disc = "sortedset", linked |-> cfg.disc = "linkedset", cmp |-> cfg.cmp]
Tailn(s, n) == SubSeq(s, Len(s) - n + 1, Len(s))
Min2(a, b) == IF a < b THEN a ELSE b

LoadOK(cfg, ref, post) ==
  IF ~cfg.kv THEN
    CASE cfg.disc = "seq"       -> post = ref
      [] cfg.disc = "ring"      -> post = Tailn(ref, Min2(cfg.cap, Len(ref)))          \* keeps the last capacity-many
      [] cfg.disc \in {"stack", "heap"} -> SameBag(post, ref)
      [] cfg.disc = "unordered" -> Members(post) = Members(ref) /\ NoDup(post)          \* sets deduplicate
      [] cfg.disc \in {"linkedset", "sortedset"} -> post = AddAll(setcfg(cfg), <<>>, ref) \* ... and sort
  ELSE
    \* keys the comparator cannot tell apart are one key; which of their members survives is free (Go's map
    \* iteration order decides), but it is one of the members the text gives (per exact key: the last one)
    LET keq(a, b) == IF cfg.sorted THEN Eqv(cfg.cmp, a, b) ELSE a = b IN
    /\ \A i, j \in DOMAIN post : keq(post[i][1], post[j][1]) => i = j
    \* every member of the result has one of the names of the text as key and the value the text gives to that name or
    \* to a name the comparator identifies with it (which key object and which of those values survive is free)
    /\ \A i \in DOMAIN post : /\ post[i][1] \in RKeys(ref)
                              /\ \E p \in Graph(ref) : keq(post[i][1], p[1]) /\ post[i][2] = p[2]
    /\ \A k \in RKeys(ref) : cfg.bidi \/ \E i \in DOMAIN post : keq(post[i][1], k)
    /\ (cfg.bidi =>
          \* any outcome of Putting the members of the decoded map in some order:
          /\ \A i, j \in DOMAIN post : post[i][2] = post[j][2] => i = j                \* stays one-to-one
          /\ (ref # <<>> => post # <<>>)
          \* when no two member names are the same key for the comparator, only values collide, and then every
          \* value of the text ends up with one of the keys that carry it
          /\ ((\A k1, k2 \in RKeys(ref) : keq(k1, k2) => k1 = k2) =>
                 {post[i][2] : i \in DOMAIN post} = {p[2] : p \in Graph(ref)}))
    /\ (cfg.sorted => Ascending(cfg.cmp, PKeys(post)))                                   \* ordered containers sort
    /\ ((cfg.disc = "linkedmap" /\ NoDup([i \in DOMAIN ref |-> ref[i][1]])) => PKeys(post) = [i \in DOMAIN ref |-> ref[i][1]])

\* well-formedness of a content for its discipline ("the container stays sound")
ContentWF(cfg, c) ==
  IF ~cfg.kv THEN
    /\ (cfg.disc \in {"unordered", "linkedset", "sortedset"} => NoDup(c))
    /\ (cfg.disc = "sortedset" => Ascending(cfg.cmp, c))
    /\ (cfg.disc = "ring" => Len(c) <= cfg.cap)
  ELSE /\ NoDup(PKeys(c))
       /\ (cfg.sorted => Ascending(cfg.cmp, PKeys(c)))
       /\ (cfg.bidi => \A i, j \in DOMAIN c : c[i][2] = c[j][2] => i = j)
=============================================================================
