------------------------------- MODULE AbsJSON -------------------------------
(* C11 / C12: what a successful load must leave behind.  `ref` is the reference *)
(* decoding of the input text (elements, or <<key, value>> pairs, in textual    *)
(* order; duplicate keys allowed), `post` the container content afterwards in   *)
(* iteration order, cfg.disc the ordering discipline of the kind.               *)
EXTENDS AbsSet
LastIn(S) == CHOOSE i \in S : \A j \in S : j <= i
RKeys(ref) == {ref[i][1] : i \in DOMAIN ref}
LastVal(ref, k) == ref[LastIn({i \in DOMAIN ref : ref[i][1] = k})][2]       \* duplicate keys: last wins
Graph(ref) == {<<k, LastVal(ref, k)>> : k \in RKeys(ref)}
PKeys(post) == [i \in DOMAIN post |-> post[i][1]]
setcfg(cfg) == [sorted |-> cfg.disc = "sortedset", linked |-> cfg.disc = "linkedset", cmp |-> cfg.cmp]
Tailn(s, n) == SubSeq(s, Len(s) - n + 1, Len(s))
Min2(a, b) == IF a < b THEN a ELSE b

LoadOK(cfg, ref, post) ==
  IF ~cfg.kv THEN
    CASE cfg.disc = "seq"       -> post = ref
      [] cfg.disc = "ring"      -> post = Tailn(ref, Min2(cfg.cap, Len(ref)))          \* keeps the last capacity-many
      [] cfg.disc \in {"stack", "heap"} -> SameBag(post, ref)
      [] cfg.disc = "unordered" -> Members(post) = Members(ref) /\ NoDup(post)          \* sets deduplicate
      [] cfg.disc \in {"linkedset", "sortedset"} -> post = AddAll(setcfg(cfg), <<>>, ref) \* ... and sort
  ELSE
    /\ NoDup(PKeys(post))
    /\ IF cfg.bidi
       THEN \* any outcome of Putting the members of the decoded map in some order:
            /\ Members(post) \subseteq Graph(ref)
            /\ {post[i][2] : i \in DOMAIN post} = {p[2] : p \in Graph(ref)}
            /\ \A i, j \in DOMAIN post : post[i][2] = post[j][2] => i = j                \* stays one-to-one
       ELSE Members(post) = Graph(ref)
    /\ (cfg.sorted => Ascending(cfg.cmp, PKeys(post)))                                   \* ordered containers sort
    /\ ((cfg.disc = "linkedmap" /\ NoDup([i \in DOMAIN ref |-> ref[i][1]])) => PKeys(post) = [i \in DOMAIN ref |-> ref[i][1]])


\* well-formedness of a content for its discipline ("the container stays sound")
ContentWF(cfg, c) ==
  IF ~cfg.kv THEN
    /\ (cfg.disc \in {"unordered", "linkedset", "sortedset"} => NoDup(c))
    /\ (cfg.disc = "sortedset" => Ascending(cfg.cmp, c))
    /\ (cfg.disc = "ring" => Len(c) <= cfg.cap)
  ELSE /\ NoDup(PKeys(c))
       /\ (cfg.sorted => Ascending(cfg.cmp, PKeys(c)))
       /\ (cfg.bidi => \A i, j \in DOMAIN c : c[i][2] = c[j][2] => i = j)
=============================================================================
