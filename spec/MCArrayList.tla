------------------------------- MODULE MCArrayList -------------------------------
EXTENDS ArrayList, AbsSeq
\* C03: the slice content follows the abstract sequence on every step, whatever the capacity does
Refines == [][ elems' = ListPost(elems, last'.op, last'.a) ]_vars
\* the length never exceeds the capacity (an indexed write past it would panic: C17)
CapInv == Len(elems) <= cap
View == <<elems, cap>>
=============================================================================
