------------------------------- MODULE TraceReaders -------------------------------
(* Trace specification for concurrent readers (family "rd", C18).                  *)
(* One event = one concurrent run on a REAL container under the Go race detector:  *)
(* two goroutines released together, operation a repeated by one and operation b   *)
(* by the other.  Logged: the sequential answers (sa, sb) taken before the run,    *)
(* whether every concurrent result equalled them (ra_ok, rb_ok; first results ra,  *)
(* rb), the number of data races the detector reported during the run, and         *)
(* whether the deep state fingerprint is the same afterwards (pure).               *)
(* AbsReaders!ResultIsSequential and AbsReaders!ReadersPure on the recorded run:   *)
EXTENDS Generic, Json, IOUtils

Trace == ndJsonDeserialize(IOEnv.TRACE)
Prop  == IOEnv.PROP

VARIABLES l
vars == <<l>>

C18(e) ==
  /\ Completed(e)
  /\ e.races = 0                              \* no data race between the two read-only calls
  /\ e.ra_ok = TRUE /\ e.rb_ok = TRUE         \* each call returned what it returns sequentially
  /\ e.ra = e.sa /\ e.rb = e.sb
  /\ e.pure = TRUE                            \* the container's state is the same afterwards

Obl(p, e) ==
  CASE p = "C18" -> C18(e)
    [] p = "C17" -> Completed(e) /\ e.out = 0

Init == l = 1
Step ==
  /\ l <= Len(Trace)
  /\ IF Obl(Prop, Trace[l]) = TRUE THEN TRUE ELSE PrintT("REJECT|" \o ToString(l))
  /\ l' = l + 1
Spec == Init /\ [][Step]_vars
Accepted == TLCGet("stats").diameter - 1 = Len(Trace)
=============================================================================
