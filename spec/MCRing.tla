------------------------------- MODULE MCRing -------------------------------
(* Bounded model checking of the ring model: index invariants, refinement of  *)
(* the bounded FIFO of AbsSeq (C05), size agreement (C15).                    *)
EXTENDS Ring, AbsSeq, Json

\* invariants of the representation
IndexInv == /\ size = CalcSize(start, end, full)
            /\ (full <=> size = Cap)
            /\ start \in 0..Cap-1 /\ end \in 0..Cap-1 /\ size \in 0..Cap
\* C05: every step is a step of the bounded FIFO over the sequence Values() lists
Abs(S) == ValuesOf(S)
Refines ==
  [][ LET s == Abs(Cur)  t == Abs(Cur') IN
      /\ (last'.op = "Enqueue" => t = RingEnqPost(s, Cap, last'.v))       \* drops exactly the oldest when full
      /\ (last'.op = "Dequeue" => t = TakePost(s) /\ last'.r = TakeRet(s, Zero))
      /\ (last'.op = "Peek"    => t = s /\ last'.r = TakeRet(s, Zero))
      /\ (last'.op = "Clear"   => t = <<>>)
    ]_vars
FullIffSizeCap == full = RingFull(Abs(Cur), Cap)       \* Full() <=> Size() = c
SizeAgrees == size = Len(Abs(Cur))                      \* C15
\* the full model steps according to the value-free index arithmetic that spec/proofs/RingInv.tla proves
\* invariant for every capacity (stuttering for Peek)
RI == INSTANCE RingIdx
IdxRefines == [][RI!Next]_<<start, end, full, size>>
View == core
Fid == PrintT("S|" \o ToJson(<<[i \in 1..Cap |-> values[i - 1]], start, end, full, size>>))
=============================================================================
