------------------------------- MODULE IdxIter -------------------------------
(* Implementation-shaped model of the index iterators (lists/arraylist,        *)
(* stacks/arraystack, queues/arrayqueue, queues/circularbuffer, binaryheap,    *)
(* priorityqueue, treeset's index, linkedhashset): the iterator is an integer  *)
(* `index` into a container of `size` elements; Next / Prev saturate at size   *)
(* and -1 and answer withinRange(index).  Checked against AbsCursor (C08)      *)
(* with NextTo / PrevTo over a predicate family.                               *)
EXTENDS AbsCursor
CONSTANTS MaxLen, ElemU
VARIABLES seq, index, pos, ret, opened
ivars == <<seq, index, pos, ret, opened>>
Size == Len(seq)
WithinRange(i) == i >= 0 /\ i < Size
NextI(i) == IF i < Size THEN i + 1 ELSE i            \* if iterator.index < size { index++ }
PrevI(i) == IF i >= 0 THEN i - 1 ELSE i              \* if iterator.index >= 0 { index-- }
Preds == {[name |-> "true", m |-> 0, r |-> 0, i |-> 0], [name |-> "false", m |-> 0, r |-> 0, i |-> 0],
          [name |-> "valmod", m |-> 2, r |-> 0, i |-> 0], [name |-> "index", m |-> 0, r |-> 0, i |-> 1]}
Pairs == [i \in DOMAIN seq |-> <<i - 1, seq[i]>>]    \* <<Index(), Value()>> of every position
RECURSIVE NextToI(_, _), PrevToI(_, _)
NextToI(i, p) == LET j == NextI(i) IN
  IF ~WithinRange(j) THEN j ELSE IF Holds(p, j, j, seq[j + 1]) THEN j ELSE NextToI(j, p)
PrevToI(i, p) == LET j == PrevI(i) IN
  IF ~WithinRange(j) THEN j ELSE IF Holds(p, j, j, seq[j + 1]) THEN j ELSE PrevToI(j, p)
Seqs == UNION {[1..n -> ElemU] : n \in 0..MaxLen}
IInit == seq \in Seqs /\ index = -1 /\ pos = -1 /\ ret = FALSE /\ opened = TRUE
Do(op, p, j) == /\ index' = j /\ pos' = Move(Pairs, pos, op, p) /\ ret' = WithinRange(j) /\ UNCHANGED <<seq, opened>>
INext == \/ Do("Next", CHOOSE p \in Preds : TRUE, NextI(index))
         \/ Do("Prev", CHOOSE p \in Preds : TRUE, PrevI(index))
         \/ Do("Begin", CHOOSE p \in Preds : TRUE, -1)
         \/ Do("End", CHOOSE p \in Preds : TRUE, Size)
         \/ Do("First", CHOOSE p \in Preds : TRUE, NextI(-1))
         \/ Do("Last", CHOOSE p \in Preds : TRUE, PrevI(Size))
         \/ \E p \in Preds : Do("NextTo", p, NextToI(index, p))
         \/ \E p \in Preds : Do("PrevTo", p, PrevToI(index, p))
ISpec == IInit /\ [][INext]_ivars
CursorInv == /\ index = pos                                   \* Index() is the abstract position
             /\ index \in -1..Size
             /\ ret = Inside(Pairs, pos)
=============================================================================
