SPECIFICATION Spec
CONSTANTS
  KeyU = {0, 1, 2, 3, 4}
  ValU = {0, 1}
INVARIANTS InStep
PROPERTIES Refines
VIEW View
CHECK_DEADLOCK FALSE
