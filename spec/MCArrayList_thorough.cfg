SPECIFICATION Spec
CONSTANTS
  MaxLen = 7
  Vals = {1, 2}
INVARIANTS CapInv
PROPERTIES Refines
VIEW View
CHECK_DEADLOCK FALSE
