------------------------------- MODULE TraceQue -------------------------------
(* Trace specification for stacks, queues and the circular buffer (family       *)
(* "que", C05).  The abstract state is the sequence of elements in REMOVAL      *)
(* order, which is what Values() must list; cfg.disc is the discipline          *)
(* ("lifo", "fifo", "ring") and cfg.cap the ring capacity.                      *)
EXTENDS AbsSeq, Generic, Json, IOUtils

Trace == ndJsonDeserialize(IOEnv.TRACE)
Prop  == IOEnv.PROP

VARIABLES l, st, src
vars == <<l, st, src>>

QuePost(cfg, s, e) ==
  CASE e.op = "Push"    -> PushPost(s, e.a.v)
    [] e.op = "Enqueue" -> IF cfg.disc = "ring" THEN RingEnqPost(s, cfg.cap, e.a.v) ELSE EnqPost(s, e.a.v)
    [] e.op \in {"Pop", "Dequeue"} -> TakePost(s)
    [] e.op = "Clear"   -> <<>>
    [] OTHER            -> s
QueRet(cfg, s, e) ==
  CASE e.op \in {"Pop", "Dequeue", "Peek"} -> e.r = TakeRet(s, cfg.zero)
    [] e.op = "Full"   -> e.r = <<cfg.disc = "ring" /\ RingFull(s, cfg.cap)>>
    [] e.op = "Size"   -> e.r = <<Len(s)>>
    [] e.op = "Empty"  -> e.r = <<s = <<>> >>
    [] e.op = "Values" -> e.r = <<s>>
    [] e.op = "String" -> e.r = <<NameOf(e.kind)>>
    [] OTHER           -> e.r = <<>>
ObsAgrees(cfg, o) ==
  /\ o.size = Len(o.vals)
  /\ o.peek = TakeRet(o.vals, cfg.zero)
  /\ o.full = (cfg.disc = "ring" /\ RingFull(o.vals, cfg.cap))
  /\ (cfg.disc = "ring" => Len(o.vals) <= cfg.cap)

Tailn(s, n) == SubSeq(s, Len(s) - n + 1, Len(s))
C12(pre, e) == e.op = "FromJSON" =>
  /\ Completed(e)
  /\ IF ~e.r[1] THEN e.post.vals = pre.vals
     ELSE CASE e.cfg.disc = "fifo" -> e.post.vals = e.a.vs
            [] e.cfg.disc = "lifo" -> SameBag(e.post.vals, e.a.vs)            \* direction of foreign text is pinned only by C11
            [] e.cfg.disc = "ring" -> e.post.vals = Tailn(e.a.vs, IF Len(e.a.vs) < e.cfg.cap THEN Len(e.a.vs) ELSE e.cfg.cap)
  /\ ObsAgrees(e.cfg, e.post)
C05(pre, e) ==
  e.op # "FromJSON" =>
  /\ Completed(e)
  /\ e.post.vals = QuePost(e.cfg, pre.vals, e)
  /\ QueRet(e.cfg, pre.vals, e)
  /\ ObsAgrees(e.cfg, e.post)

C15(pre, e) ==
  Completed(e) =>
    /\ SizeOK(e.kind, e.post, FALSE)
    /\ (e.op = "Clear" => e.post.vals = <<>> /\ e.post.size = 0 /\ e.post.empty /\ ~e.post.full)
    /\ PureOK(e)

C18(pre, e) == Completed(e) => PureOK(e) /\ (~e.mut => e.post = pre)

Obl(p, pre, e) ==
  IF e.op = "NewBad" THEN (p = "C17" => SilentOK(e))      \* a documented constructor precondition: must panic (Generic)
  ELSE
  CASE p = "C05" -> C05(pre, e)
    [] p = "C12" -> C12(pre, e)
    [] p = "C15" -> C15(pre, e)
    [] p = "C17" -> SilentOK(e)
    [] p = "C18" -> C18(pre, e)

Init == l = 1 /\ st = 0 /\ src = 0
Step ==
  /\ l <= Len(Trace)
  /\ LET e   == Trace[l]
         pre == IF e.rs = 1 THEN e.pre ELSE IF e.rs = 2 THEN src ELSE st
     IN /\ IF Obl(Prop, pre, e) = TRUE THEN TRUE ELSE PrintT("REJECT|" \o ToString(l))
        /\ st' = IF e.obsbad THEN pre ELSE e.post
        /\ src' = IF e.rs = 1 THEN e.pre ELSE src
  /\ l' = l + 1
Spec == Init /\ [][Step]_vars
Accepted == TLCGet("stats").diameter - 1 = Len(Trace)
=============================================================================
