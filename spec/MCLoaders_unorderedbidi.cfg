SPECIFICATION Spec
CONSTANTS
  Disc = "unorderedbidi"
  ElemU = {0, 1}
  MaxLen = 3
INVARIANTS LoadsAreOK SomeOutcome RoundTrip
CHECK_DEADLOCK FALSE
