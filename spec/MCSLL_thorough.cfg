SPECIFICATION Spec
CONSTANTS
  MaxLen = 5
  Vals = {1, 2}
INVARIANTS NoPanic WF
PROPERTIES Refines
VIEW View
CHECK_DEADLOCK FALSE
