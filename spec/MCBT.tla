------------------------------- MODULE MCBT -------------------------------
(* Bounded model checking of the B-tree model for an order M: C01 refinement *)
(* of AbsMap, C02 sorted walk / LeftKey / RightKey / Get, C07 shape (fill,   *)
(* children, leaf depth, Height()) and work bound, C15 cached size.           *)
EXTENDS BT, AbsMap, Shape, Json
cfgT == [sorted |-> TRUE, cmp |-> "nat", linked |-> FALSE, bidi |-> FALSE, vsorted |-> FALSE, vcmp |-> "nat"]
Ent(t) == InOrder(t, t.root)
Refines ==
  [][ LET s == Ent(T)  t == Ent(T') IN
      CASE last'.op = "Put"    -> PutAllowed(cfgT, s, last'.k, last'.v, t)
        [] last'.op = "Remove" -> RemoveAllowed(cfgT, s, last'.k, t)
        [] last'.op = "Clear"  -> t = <<>>
        [] last'.op = "Get"    -> t = s
        [] OTHER -> TRUE ]_vars
Sorted == SortedOK(cfgT, Ent(T))
Probes == (CHOOSE m \in KeyU : \A k \in KeyU : m <= k) - 1 .. (CHOOSE m \in KeyU : \A k \in KeyU : m >= k) + 1
GetOK == \A p \in Probes : <<GetT(T, p)[1], GetT(T, p)[2]>> = GetRet(cfgT, Ent(T), p, 0)
MinMaxOK == /\ MinOK(cfgT, Ent(T), IF T.root = Nil THEN <<0, FALSE>> ELSE <<E(T, LeftMostN(T, T.root))[1][1], TRUE>>)
            /\ MaxOK(cfgT, Ent(T), IF T.root = Nil THEN <<0, FALSE>> ELSE <<Last(E(T, RightMostN(T, T.root)))[1], TRUE>>)
\* the exported structure as the harness logs it: pre-order sequence of [k, c, p]
RECURSIVE Pre(_, _)
Pre(t, x) == IF x = Nil THEN <<>> ELSE
   LET F[i \in 0..Len(C(t, x))] == IF i = 0 THEN <<x>> ELSE F[i-1] \o Pre(t, C(t, x)[i]) IN F[Len(C(t, x))]
Flat(t) == LET ord == Pre(t, t.root)
               ix(x) == IF x = Nil THEN 0 ELSE CHOOSE i \in DOMAIN ord : ord[i] = x
           IN [i \in DOMAIN ord |-> [k |-> [j \in DOMAIN E(t, ord[i]) |-> E(t, ord[i])[j][1]],
                                     c |-> [j \in DOMAIN C(t, ord[i]) |-> ix(C(t, ord[i])[j])],
                                     p |-> ix(t.n[ord[i]].parent)]]
ShapeInv == BTShapeOK(Flat(T), M, HeightOf(T, T.root))
WorkBound == [][ last'.op \in {"Get", "Put", "Remove"} => WorkOK("bt", M, last'.n, last'.cmps) ]_vars
RECURSIVE CanonK(_, _)
CanonK(t, x) == IF x = Nil THEN <<>> ELSE <<[j \in DOMAIN E(t, x) |-> E(t, x)[j][1]], [i \in 1..Len(C(t, x)) |-> CanonK(t, C(t, x)[i])]>>
Fid == PrintT("S|" \o ToJson(CanonK(T, T.root)))
\* every generated transition of the model as <<from, op, key, to>> (fidelity of the EDGES; always TRUE)
FidEdge == PrintT("E|" \o ToJson(<<CanonK(T, T.root), last'.op, last'.k, CanonK(T', T'.root)>>))
=============================================================================
