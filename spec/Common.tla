------------------------------- MODULE Common -------------------------------
(* Shared vocabulary of the abstract (property-level) machines.               *)
EXTENDS Integers, Sequences, FiniteSets, SequencesExt, TLC

\* ---- comparators are rank functions into the integers (a strict weak order = a ranking) ----
\* elements are integers, or records [p |-> priority, id |-> identity] for tie experiments
Rank(c, x) == CASE c = "nat"    -> x
                [] c = "rev"    -> 0 - x
                [] c = "half"   -> x \div 2          \* coarsened: 2k and 2k+1 are one key (x >= 0)
                [] c = "prio"   -> x.p               \* ties between distinguishable elements
                [] c = "prioid" -> x.p * 1000 + x.id \* total
                [] c = "maxprio"-> 0 - x.p
Cmp(c, a, b) == LET ra == Rank(c, a) rb == Rank(c, b) IN IF ra < rb THEN -1 ELSE IF ra > rb THEN 1 ELSE 0
Eqv(c, a, b) == Rank(c, a) = Rank(c, b)
\* key equality of a container kind: comparator-equivalence for tree-backed kinds, Go == otherwise
KeyEq(cfg, a, b) == IF cfg.sorted THEN Eqv(cfg.cmp, a, b) ELSE a = b

NonDecreasing(c, s) == \A i \in 1..Len(s)-1 : Cmp(c, s[i], s[i+1]) <= 0
Ascending(c, s)     == \A i \in 1..Len(s)-1 : Cmp(c, s[i], s[i+1]) < 0

\* ---- sequences with Go's 0-based indices ----
InRange(s, i)      == i >= 0 /\ i < Len(s)
At(s, i)           == s[i + 1]
SpliceAt(s, i, vs) == SubSeq(s, 1, i) \o vs \o SubSeq(s, i + 1, Len(s))
DropAt(s, i)     == SubSeq(s, 1, i) \o SubSeq(s, i + 2, Len(s))
SetAtIdx(s, i, v)  == [s EXCEPT ![i + 1] = v]
SwapAt(s, i, j)    == [s EXCEPT ![i + 1] = s[j + 1], ![j + 1] = s[i + 1]]
Rev(s)             == [i \in 1..Len(s) |-> s[Len(s) + 1 - i]]
Count(s, x)        == Cardinality({i \in DOMAIN s : s[i] = x})
\* the bag of a sequence as a function element -> multiplicity (a left fold: linear in the length)
BagOf(s)           == FoldLeft(LAMBDA acc, x : IF x \in DOMAIN acc THEN [acc EXCEPT ![x] = @ + 1] ELSE TLCEval(acc @@ (x :> 1)), <<>>, s)
SameBag(s, t)      == Len(s) = Len(t) /\ BagOf(s) = BagOf(t)
Members(s)         == {s[i] : i \in DOMAIN s}
NoDup(s)           == Cardinality(Members(s)) = Len(s)
IndexOf0(s, x)     == IF \E i \in DOMAIN s : s[i] = x THEN (CHOOSE i \in DOMAIN s : s[i] = x /\ \A j \in 1..i-1 : s[j] # x) - 1 ELSE -1
Zero(z)            == z      \* the Go zero value of the element type is carried in cfg.zero
=============================================================================
