------------------------------- MODULE MCSLL -------------------------------
(* Bounded model checking of the singly linked list model: C03 refinement of *)
(* the abstract sequence, C15 cached size and `last`, C17 no nil dereference. *)
EXTENDS SLL, AbsSeq
Refines == [][ ~L'.panic => Values(L') = ListPost(Values(L), last'.op, last'.a) ]_vars
NoPanic == ~L.panic
RECURSIVE LastOf(_, _, _)
LastOf(t, x, fuel) == IF x = Nil \/ fuel = 0 THEN Nil ELSE IF t.n[x].next = Nil THEN x ELSE LastOf(t, t.n[x].next, fuel - 1)
WF == ~L.panic => /\ Len(Values(L)) = L.size                           \* C15: cached size = chain length
                  /\ L.last = LastOf(L, L.first, MaxLen + 3)           \* `last` is the end of the chain
                  /\ (L.size = 0 <=> L.first = Nil)
                  /\ Cardinality(Used(L)) = L.size
View == <<Values(L), L.panic, IF L.last = Nil THEN 0 ELSE 1>>
=============================================================================
