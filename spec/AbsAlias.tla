------------------------------- MODULE AbsAlias -------------------------------
(* C16: slices handed out by Values()/Keys() are snapshots, slices handed in   *)
(* are copied.  Abstract machine: a container (a sequence) and a registry of   *)
(* caller-owned slices; the frame rules say which steps may change what.       *)
(* MCAlias.tla explores the machine; the trace specification uses the frame    *)
(* predicates on recorded steps of the real code.                              *)
EXTENDS Common

\* a step of the caller
\*   Snapshot    : reg' = Append(reg, container)          (Values() / Keys())
\*   Scribble(j) : reg'[j] is overwritten (every position and the spare capacity)
\*   Mutate      : container' is any other sequence
\*   HandIn(j)   : container' = container \o reg[j]        (Add / Push / Insert / New with slice j)
ScribbleFrame(container, container2)  == container2 = container      \* writing to a slice: container unchanged
MutateFrame(snapBefore, snapAfter)    == snapAfter = snapBefore      \* mutating the container: snapshots unchanged
ArgFrame(afterCall, afterScribble)    == afterScribble = afterCall   \* the caller reuses its argument slice
SortedOK(result, values) == SameBag(result, values) /\ NonDecreasing("nat", result)
=============================================================================
