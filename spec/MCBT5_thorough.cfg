SPECIFICATION Spec
CONSTANTS
  KeyU = {1, 2, 3, 4, 5, 6, 7, 8, 9, 10, 11, 12, 13, 14, 15, 16}
  ValU = {1}
  MaxNodes = 22
  M = 5
INVARIANTS BTInv Sorted GetOK MinMaxOK ShapeInv
PROPERTIES Refines WorkBound
VIEW View
CHECK_DEADLOCK FALSE
