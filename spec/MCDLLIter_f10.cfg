SPECIFICATION ISpec
CONSTANTS
  Repaired = FALSE
  MaxLen = 3
  Vals = {1, 2}
INVARIANTS NoIterPanic NoValuePanic
VIEW IView
CHECK_DEADLOCK FALSE
