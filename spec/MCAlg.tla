------------------------------- MODULE MCAlg -------------------------------
(* C13: the set-algebra algorithms of sets/hashset (and linkedhashset, which   *)
(* iterates its hash table the same way), transcribed as loops over the        *)
(* elements of an operand, against their mathematical meaning, for ALL pairs   *)
(* of subsets of a small universe - including the choice of the smaller        *)
(* operand in Intersection and the aliased case a = b.                         *)
EXTENDS Integers, Sequences, FiniteSets, FiniteSetsExt, TLC
CONSTANTS U
VARIABLES a, b, r, op
vars == <<a, b, r, op>>
\* for item := range X.items { if cond(item) { result.Add(item) } }
Loop(X, Keep(_)) == FoldSet(LAMBDA x, acc : IF Keep(x) THEN acc \cup {x} ELSE acc, {}, X)
InterT(A, B) == IF Cardinality(A) <= Cardinality(B)                         \* iterate over the smaller set
                THEN Loop(A, LAMBDA x : x \in B) ELSE Loop(B, LAMBDA x : x \in A)
UnionT(A, B) == Loop(A, LAMBDA x : TRUE) \cup Loop(B, LAMBDA x : TRUE)
DiffT(A, B)  == Loop(A, LAMBDA x : x \notin B)
Init == a \in SUBSET U /\ b \in SUBSET U /\ r = {} /\ op = "none"
Do(name, res) == r' = res /\ op' = name /\ UNCHANGED <<a, b>>
Next == \/ Do("Intersection", InterT(a, b)) \/ Do("Union", UnionT(a, b)) \/ Do("Difference", DiffT(a, b))
        \/ Do("IntersectionSelf", InterT(a, a)) \/ Do("UnionSelf", UnionT(a, a)) \/ Do("DifferenceSelf", DiffT(a, a))
Spec == Init /\ [][Next]_vars
Exact == /\ (op = "Intersection" => r = a \cap b) /\ (op = "Union" => r = a \cup b) /\ (op = "Difference" => r = a \ b)
         /\ (op = "IntersectionSelf" => r = a) /\ (op = "UnionSelf" => r = a) /\ (op = "DifferenceSelf" => r = {})
OperandsUnchanged == [][a' = a /\ b' = b]_vars
=============================================================================
