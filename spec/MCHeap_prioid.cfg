SPECIFICATION Spec
CONSTANTS
  Items <- ItemsDef
  CmpName = "prioid"
INVARIANTS HeapOrdered
PROPERTIES Refines
VIEW View
CHECK_DEADLOCK FALSE
