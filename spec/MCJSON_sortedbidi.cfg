SPECIFICATION Spec
CONSTANTS
  Disc = "sortedbidi"
  ElemU = {0, 1}
  MaxLen = 3
INVARIANTS Sound NoSurvivor RoundTrip
CHECK_DEADLOCK FALSE
