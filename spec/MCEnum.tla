------------------------------- MODULE MCEnum -------------------------------
(* C14: laws of the abstract enumerable functions (AbsEnum) over ALL iteration *)
(* sequences of a small universe and every member of the predicate and mapper  *)
(* families - the definitions the trace specification judges the code by are   *)
(* themselves checked against the wording of the property.                     *)
EXTENDS AbsEnum
CONSTANTS MaxLen, ElemU
VARIABLES seq
Preds == {[name |-> "true", m |-> 0, r |-> 0, i |-> 0], [name |-> "false", m |-> 0, r |-> 0, i |-> 0],
          [name |-> "valmod", m |-> 2, r |-> 0, i |-> 0], [name |-> "keymod", m |-> 2, r |-> 1, i |-> 0],
          [name |-> "index", m |-> 0, r |-> 0, i |-> 1], [name |-> "sum3", m |-> 3, r |-> 0, i |-> 0]}
IdxMappers == {[name |-> "add", c |-> 1], [name |-> "half", c |-> 0], [name |-> "const", c |-> 7], [name |-> "index", c |-> 0]}
Seqs == UNION {[1..n -> ElemU] : n \in 0..MaxLen}
Init == \E v \in Seqs : seq = [i \in DOMAIN v |-> <<i - 1, v[i]>>]       \* index containers: key = index
Next == UNCHANGED seq
Spec == Init /\ [][Next]_seq
setcfg(d) == [zero |-> 0, kv |-> FALSE, disc |-> d, cmp |-> "nat", sorted |-> d = "sortedset", linked |-> d = "linkedset",
              bidi |-> FALSE, vsorted |-> FALSE, vcmp |-> "nat"]
Laws == \A p \in Preds :
  /\ AnyRet(seq, p) = (\E i \in DOMAIN seq : H(p, seq[i]))                           \* Any = exists
  /\ AllRet(seq, p) = (\A i \in DOMAIN seq : H(p, seq[i]))                           \* All = for all
  /\ (AnyRet(seq, p) => LET f == FindRet(seq, p, FALSE) IN                            \* Find = first match
        \E i \in DOMAIN seq : seq[i] = f /\ H(p, f) /\ \A j \in 1..i-1 : ~H(p, seq[j]))
  /\ (~AnyRet(seq, p) => FindRet(seq, p, FALSE) = <<-1, 0>> /\ FindRet(seq, p, TRUE) = <<0, 0>>)
  /\ LET sel == SelectRes(seq, p, FALSE) IN                                           \* Select: matching elements, original order
       /\ Len(sel) = Cardinality(Matches(seq, p))
       /\ \E f \in [DOMAIN sel -> DOMAIN seq] : /\ \A i \in DOMAIN sel : sel[i] = seq[f[i]][2] /\ H(p, seq[f[i]])
                                               /\ \A i, j \in DOMAIN sel : i < j => f[i] < f[j]
MapLaws == \A m \in IdxMappers :
  /\ Len(MapRes(setcfg("seq"), seq, m)) = Len(seq)                                    \* lists: one mapped element per element, in order
  /\ \A i \in DOMAIN seq : MapRes(setcfg("seq"), seq, m)[i] = MapIdx(m, seq[i][1], seq[i][2])
  /\ LET r == MapRes(setcfg("sortedset"), seq, m) IN                                  \* sets deduplicate and re-sort
       /\ Ascending("nat", r) /\ Members(r) = {MapIdx(m, seq[i][1], seq[i][2]) : i \in DOMAIN seq}
  /\ LET r == MapRes(setcfg("linkedset"), seq, m) IN
       /\ NoDup(r) /\ Members(r) = {MapIdx(m, seq[i][1], seq[i][2]) : i \in DOMAIN seq}
=============================================================================
