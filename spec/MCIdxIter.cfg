SPECIFICATION ISpec
CONSTANTS
  MaxLen = 4
  ElemU = {1, 2}
INVARIANT CursorInv
CHECK_DEADLOCK FALSE
