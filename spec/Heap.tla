------------------------------- MODULE Heap -------------------------------
(* Implementation-shaped model of trees/binaryheap/binaryheap.go at array     *)
(* level: Push (bubbleUp for one value, Floyd loop `size/2+1 .. 0` for        *)
(* several), Pop (swap root with last, remove last, bubbleDownIndex(0)),      *)
(* Clear, FromJSON (load verbatim, then restore heap order - fix 328b074).    *)
(* PriorityQueue delegates every operation to it.                             *)
EXTENDS Integers, Sequences, FiniteSets, TLC
CONSTANTS Items, CmpName     \* elements [p |-> priority, id |-> identity]; comparator name (Common!Rank)
VARIABLES h, last
vars == <<h, last>>

Rk(x) == CASE CmpName = "prio" -> x.p [] CmpName = "maxprio" -> 0 - x.p [] CmpName = "prioid" -> x.p * 1000 + x.id
HCmp(a, b) == IF Rk(a) < Rk(b) THEN -1 ELSE IF Rk(a) > Rk(b) THEN 1 ELSE 0
At0(s, i) == s[i + 1]                                  \* 0-based
Swap0(s, i, j) == [s EXCEPT ![i + 1] = s[j + 1], ![j + 1] = s[i + 1]]
RECURSIVE BubbleDownIndex(_, _), BubbleUpFrom(_, _), Heapify(_, _)
BubbleDownIndex(s, index) ==
  LET size == Len(s)  left == 2 * index + 1  right == 2 * index + 2 IN
  IF left >= size THEN s
  ELSE LET smaller == IF right < size /\ HCmp(At0(s, left), At0(s, right)) > 0 THEN right ELSE left IN
       IF HCmp(At0(s, index), At0(s, smaller)) > 0 THEN BubbleDownIndex(Swap0(s, index, smaller), smaller) ELSE s
BubbleUpFrom(s, index) ==
  IF index <= 0 THEN s
  ELSE LET parent == (index - 1) \div 2 IN
       IF HCmp(At0(s, parent), At0(s, index)) <= 0 THEN s ELSE BubbleUpFrom(Swap0(s, index, parent), parent)
\* for i := from; i >= 0; i-- { bubbleDownIndex(i) }
Heapify(s, i) == IF i < 0 THEN s ELSE Heapify(BubbleDownIndex(s, i), i - 1)
PushT(s, vs) == IF Len(vs) = 1 THEN BubbleUpFrom(Append(s, vs[1]), Len(s))
                ELSE LET t == s \o vs IN Heapify(t, Len(t) \div 2 + 1)
PopT(s) == IF s = <<>> THEN s
           ELSE LET lastI == Len(s) - 1
                    t == SubSeq(Swap0(s, 0, lastI), 1, lastI)
                IN BubbleDownIndex(t, 0)
LoadT(vs) == Heapify(vs, Len(vs) \div 2 - 1)           \* FromJSON: list loaded verbatim, then heapified

ZeroEl == [p |-> 0, id |-> 0]
Used == {h[i] : i \in DOMAIN h}
Free == Items \ Used
Init == h = <<>> /\ last = [op |-> "New", vs |-> <<>>, r |-> <<>>]
Step(op, vs, r, t) == h' = t /\ last' = [op |-> op, vs |-> vs, r |-> r]
Push0 == Step("Push", <<>>, <<>>, PushT(h, <<>>))
Push1 == \E x \in Free : Step("Push", <<x>>, <<>>, PushT(h, <<x>>))
Push2 == \E x, y \in Free : x # y /\ Step("Push", <<x, y>>, <<>>, PushT(h, <<x, y>>))
Push3 == \E x, y, z \in Free : x # y /\ y # z /\ x # z /\ Step("Push", <<x, y, z>>, <<>>, PushT(h, <<x, y, z>>))
Pop   == Step("Pop", <<>>, IF h = <<>> THEN <<ZeroEl, FALSE>> ELSE <<h[1], TRUE>>, PopT(h))
Peek  == Step("Peek", <<>>, IF h = <<>> THEN <<ZeroEl, FALSE>> ELSE <<h[1], TRUE>>, h)
Clear == Step("Clear", <<>>, <<>>, <<>>)
\* FromJSON of any arrangement of any three unused items or of the current content reversed
Load  == \/ \E x, y, z \in Items : x # y /\ y # z /\ x # z /\ Step("FromJSON", <<x, y, z>>, <<TRUE>>, LoadT(<<x, y, z>>))
         \/ \E x, y \in Items : x # y /\ Step("FromJSON", <<x, y>>, <<TRUE>>, LoadT(<<x, y>>))
         \/ Step("FromJSON", <<>>, <<TRUE>>, LoadT(<<>>))
Next == Push0 \/ Push1 \/ Push2 \/ Push3 \/ Pop \/ Peek \/ Clear \/ Load
Spec == Init /\ [][Next]_vars
=============================================================================
