------------------------------- MODULE MCDLL -------------------------------
(* Bounded model checking of the doubly linked list model: C03 (refinement of *)
(* the abstract sequence), C15 (cached size), C17 (no nil dereference).       *)
EXTENDS DLL, AbsSeq
Refines == [][ ~L'.panic => Values(L') = ListPost(Values(L), last'.op, last'.a) ]_vars
NoPanic == ~L.panic
WF == ~L.panic => /\ Len(Values(L)) = L.size                        \* C15: cached size = chain length
                  /\ ValuesBack(L, L.last) = Values(L)              \* backward chain mirrors the forward chain
                  /\ (L.size = 0 <=> L.first = Nil) /\ (L.size = 0 <=> L.last = Nil)
                  /\ Cardinality(Used(L)) = L.size
\* Get(i) with the code's traversal direction agrees with the sequence
GetAgrees == ~L.panic => \A i \in 0..L.size-1 : L.n[Locate(L, i)].value = At(Values(L), i)
View == <<Values(L), L.panic>>
=============================================================================
