------------------------------- MODULE Ring -------------------------------
(* Implementation-shaped model of queues/circularbuffer/circularbuffer.go:     *)
(* the fields values[], start, end, full, size, maxSize and the bodies of      *)
(* Enqueue / Dequeue / Peek / Clear / Values / calculateSize, statement by     *)
(* statement.  Stale slots of the backing array are part of the state.         *)
EXTENDS Integers, Sequences, TLC
CONSTANTS Cap, Vals            \* maxSize (>= 1) and the value universe
VARIABLES values, start, end, full, size, last
vars == <<values, start, end, full, size, last>>
core == <<values, start, end, full, size>>

Zero == 0
\* calculateSize()
CalcSize(s, e, f) == IF e < s THEN Cap - s + e
                     ELSE IF e = s THEN (IF f THEN Cap ELSE 0) ELSE e - s
Cur == [values |-> values, start |-> start, end |-> end, full |-> full, size |-> size]
\* Dequeue on a state record (Enqueue calls it when the buffer is full)
DeqState(S) == IF S.size = 0 THEN S                       \* Empty(): nothing to do
               ELSE LET s1 == IF S.start + 1 >= Cap THEN 0 ELSE S.start + 1        \* start = start + 1; wrap
                        S1 == [S EXCEPT !.start = s1, !.full = FALSE]                 \* the slot keeps its stale value
                    IN [S1 EXCEPT !.size = S.size - 1]     \* size = size - 1
EnqState(S, v) ==
  LET S0 == IF S.size = Cap THEN DeqState(S) ELSE S       \* if queue.Full() { queue.Dequeue() }
      v1 == [S0.values EXCEPT ![S0.end] = v]              \* values[end] = value
      e1 == IF S0.end + 1 >= Cap THEN 0 ELSE S0.end + 1   \* end = end + 1; wrap
      f1 == IF e1 = S0.start THEN TRUE ELSE S0.full       \* if end == start { full = true }
  IN [values |-> v1, start |-> S0.start, end |-> e1, full |-> f1, size |-> CalcSize(S0.start, e1, f1)]
ClearState == [values |-> [i \in 0..Cap-1 |-> Zero], start |-> 0, end |-> 0, full |-> FALSE, size |-> 0]
\* Values(): values[(start+i) % maxSize] for i < size
ValuesOf(S) == [i \in 1..S.size |-> S.values[(S.start + i - 1) % Cap]]
PeekOf(S)   == IF S.size = 0 THEN <<Zero, FALSE>> ELSE <<S.values[S.start], TRUE>>

Become(S) == /\ values' = S.values /\ start' = S.start /\ end' = S.end /\ full' = S.full /\ size' = S.size
Init == /\ values = ClearState.values /\ start = 0 /\ end = 0 /\ full = FALSE /\ size = 0
        /\ last = [op |-> "New", v |-> 0, r |-> <<>>]
Enqueue(v) == Become(EnqState(Cur, v)) /\ last' = [op |-> "Enqueue", v |-> v, r |-> <<>>]
Dequeue    == Become(DeqState(Cur)) /\ last' = [op |-> "Dequeue", v |-> 0, r |-> PeekOf(Cur)]
Peek       == UNCHANGED core /\ last' = [op |-> "Peek", v |-> 0, r |-> PeekOf(Cur)]
Clear      == Become(ClearState) /\ last' = [op |-> "Clear", v |-> 0, r |-> <<>>]
Next == (\E v \in Vals : Enqueue(v)) \/ Dequeue \/ Peek \/ Clear
Spec == Init /\ [][Next]_vars
=============================================================================
