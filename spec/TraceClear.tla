------------------------------- MODULE TraceClear -------------------------------
(* C15: "Clear() leaves an empty container that keeps its configuration and      *)
(* behaves from then on exactly like a freshly constructed one."                 *)
(* One event: a reachable state of a REAL container was cleared, then one        *)
(* continuation of public calls was applied both to the cleared instance (c)     *)
(* and to a fresh instance of the same configuration (f); each step carries the  *)
(* results (rc, rf) and the complete observations (oc, of) of both.              *)
EXTENDS Generic, Json, IOUtils

Trace == ndJsonDeserialize(IOEnv.TRACE)
Prop  == IOEnv.PROP

VARIABLES l
vars == <<l>>

C15(e) ==
  /\ Completed(e)
  /\ \A i \in DOMAIN e.steps : e.steps[i].rc = e.steps[i].rf /\ e.steps[i].oc = e.steps[i].of
  /\ e.steps # <<>> /\ e.steps[1].oc.size = 0 /\ e.steps[1].oc.empty = TRUE

Obl(p, e) ==
  CASE p = "C15" -> C15(e)
    [] p = "C17" -> Completed(e) /\ e.out = 0

Init == l = 1
Step ==
  /\ l <= Len(Trace)
  /\ IF Obl(Prop, Trace[l]) = TRUE THEN TRUE ELSE PrintT("REJECT|" \o ToString(l))
  /\ l' = l + 1
Spec == Init /\ [][Step]_vars
Accepted == TLCGet("stats").diameter - 1 = Len(Trace)
=============================================================================
