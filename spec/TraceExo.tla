------------------------------- MODULE TraceExo -------------------------------
(* Trace specification for family "exo" (C17, C18): every exported method of    *)
(* every container kind and of its iterators, called by reflection on           *)
(* containers whose element / key / value types are pointers (nil among them),  *)
(* interfaces holding nil and typed nil pointers, structs and arrays with NaN,   *)
(* channels, empty structs, hostile strings.  One event per call: method name,  *)
(* argument classes, panic / time-out / bytes written to fd 1, 2, and - for the  *)
(* read-only methods - whether the container's bytes stayed what they were.      *)
(* What the calls return is the business of the typed families.                  *)
EXTENDS Generic, Json, IOUtils

Trace == ndJsonDeserialize(IOEnv.TRACE)
Prop  == IOEnv.PROP

VARIABLES l
vars == <<l>>

Obl(p, e) ==
  CASE p = "C17" -> Completed(e) /\ e.out = 0                       \* returns normally and silently
    [] p = "C18" -> Completed(e) => (~e.mut => e.pure = TRUE)      \* read-only methods do not modify the container

Init == l = 1
Step ==
  /\ l <= Len(Trace)
  /\ IF Obl(Prop, Trace[l]) = TRUE THEN TRUE ELSE PrintT("REJECT|" \o ToString(l))
  /\ l' = l + 1
Spec == Init /\ [][Step]_vars
Accepted == TLCGet("stats").diameter - 1 = Len(Trace)
=============================================================================
