SPECIFICATION ISpec
CONSTANTS
  Repaired = TRUE
  MaxLen = 3
  Vals = {1, 2}
INVARIANTS CursorInv NoIterPanic NoValuePanic
VIEW IView
CHECK_DEADLOCK FALSE
