------------------------------- MODULE MCLoaders -------------------------------
(* For every ordering discipline: every outcome of the loaders model satisfies    *)
(* AbsJSON!LoadOK (C12: the content is exactly what the input denotes, nothing    *)
(* survives, the container stays well-formed), and storing a well-formed content  *)
(* and loading the text again gives it back (C11).                                *)
EXTENDS Loaders
CONSTANTS Disc, ElemU, MaxLen
VARIABLES ref
kv == Disc \in {"unorderedmap", "sortedmap", "linkedmap", "unorderedbidi", "sortedbidi"}
cfg == [kv |-> kv, cmp |-> "nat", cap |-> 2,
        disc |-> CASE Disc = "unorderedmap" -> "unordered" [] Disc = "unorderedbidi" -> "unordered" [] OTHER -> Disc,
        sorted |-> Disc \in {"sortedmap", "sortedbidi"}, bidi |-> Disc \in {"unorderedbidi", "sortedbidi"}]
Atom == IF kv THEN ElemU \X ElemU ELSE ElemU
Seqs == UNION {[1..n -> Atom] : n \in 0..MaxLen}
Init == ref \in Seqs
Next == UNCHANGED ref
Spec == Init /\ [][Next]_ref
Outcomes == IF kv THEN LoadPairsImpl(cfg, ref) ELSE LoadValues(cfg, ref)
LoadsAreOK == \A post \in Outcomes : LoadOK(cfg, ref, post) /\ ContentWF(cfg, post)
SomeOutcome == Outcomes # {}
\* round trip: a well-formed content, stored in iteration order, loads back to itself
RoundTrip == (ContentWF(cfg, ref) /\ ~(cfg.disc = "ring" /\ Len(ref) > cfg.cap)) =>
               \E post \in Outcomes : IF cfg.disc \in {"unordered", "heap", "stack"} THEN SameBag(post, ref) ELSE post = ref
=============================================================================
