------------------------------- MODULE ArrayList -------------------------------
(* Implementation-shaped model of lists/arraylist/arraylist.go: the backing      *)
(* slice as (elements, cap) with growBy (x2 when the new length reaches the      *)
(* capacity), shrink (reallocate to the length when it drops to 25 % of the      *)
(* capacity), Clear keeping the capacity, and Add / Insert / Remove / Set /      *)
(* Swap / Clear on it.                                                           *)
EXTENDS Integers, Sequences, TLC
CONSTANTS MaxLen, Vals
VARIABLES elems, cap, last
vars == <<elems, cap, last>>

WithinRange(e, i) == i >= 0 /\ i < Len(e)
\* growBy(n): returns the new capacity (the length becomes len+n in every case)
GrowCap(len, c, n) == IF len + n >= c THEN 2 * (c + n) ELSE c          \* int(growthFactor * float32(cap+n))
\* shrink(): reallocate to (len, len) when len <= int(cap * 0.25)
ShrinkCap(len, c) == IF len <= c \div 4 THEN len ELSE c
AddS(e, c, vs)    == <<e \o vs, GrowCap(Len(e), c, Len(vs))>>
InsertS(e, c, i, vs) ==
  IF ~WithinRange(e, i) THEN (IF i = Len(e) THEN AddS(e, c, vs) ELSE <<e, c>>)
  ELSE <<SubSeq(e, 1, i) \o vs \o SubSeq(e, i + 1, Len(e)), GrowCap(Len(e), c, Len(vs))>>   \* slices.Insert within capacity
RemoveS(e, c, i)  == IF ~WithinRange(e, i) THEN <<e, c>>
                     ELSE LET e1 == SubSeq(e, 1, i) \o SubSeq(e, i + 2, Len(e)) IN <<e1, ShrinkCap(Len(e1), c)>>
SetS(e, c, i, v)  == IF ~WithinRange(e, i) THEN (IF i = Len(e) THEN AddS(e, c, <<v>>) ELSE <<e, c>>)
                     ELSE <<[e EXCEPT ![i + 1] = v], c>>
SwapS(e, c, i, j) == IF WithinRange(e, i) /\ WithinRange(e, j)
                     THEN <<[e EXCEPT ![i + 1] = e[j + 1], ![j + 1] = e[i + 1]], c>> ELSE <<e, c>>
ClearS(e, c)      == <<<<>>, c>>                                      \* elements[:0], capacity kept

Arg(i, j, v, vs) == [i |-> i, j |-> j, v |-> v, vs |-> vs, cmp |-> "nat"]
VSS == {<<>>} \cup {<<v>> : v \in Vals} \cup {<<v, w>> : v, w \in Vals} \cup {<<v, v, v>> : v \in Vals}
Idx == (-1)..(Len(elems) + 1)
Fits(vs) == Len(elems) + Len(vs) <= MaxLen
Init == elems = <<>> /\ cap = 0 /\ last = [op |-> "New", a |-> Arg(0, 0, 0, <<>>)]
Step(op, a, r) == elems' = r[1] /\ cap' = r[2] /\ last' = [op |-> op, a |-> a]
Next == \/ \E vs \in VSS : Fits(vs) /\ Step("Add", Arg(0, 0, 0, vs), AddS(elems, cap, vs))
        \/ \E vs \in VSS, i \in Idx : Fits(vs) /\ Step("Insert", Arg(i, 0, 0, vs), InsertS(elems, cap, i, vs))
        \/ \E i \in Idx : Step("Remove", Arg(i, 0, 0, <<>>), RemoveS(elems, cap, i))
        \/ \E i \in Idx, v \in Vals : Fits(<<v>>) /\ Step("Set", Arg(i, 0, v, <<>>), SetS(elems, cap, i, v))
        \/ \E i, j \in Idx : Step("Swap", Arg(i, j, 0, <<>>), SwapS(elems, cap, i, j))
        \/ Step("Clear", Arg(0, 0, 0, <<>>), ClearS(elems, cap))
Spec == Init /\ [][Next]_vars
=============================================================================
