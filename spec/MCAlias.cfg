SPECIFICATION Spec
CONSTANTS
  ElemU = {0, 1}
  MaxLen = 2
  Aliasing = FALSE
INVARIANTS NoSharing
PROPERTIES ScribbleLeavesContainer MutateLeavesSnapshots
CHECK_DEADLOCK FALSE
