------------------------------- MODULE Generic -------------------------------
(* Obligations every recorded event of every container must satisfy.          *)
(*   C15  Size / Empty / Values / Keys agree, String() names the container    *)
(*   C17  every call returns normally and silently                            *)
(*   C18  (sequential half) observers do not modify the container             *)
(* An event e is the record written by the harness for one public call on the *)
(* real container (harness/drive.go: step).                                   *)
EXTENDS Integers, Sequences, TLC

\* first line of String() per kind
NameOf(kind) ==
  CASE kind = "arraylist" -> "ArrayList"
    [] kind = "singlylinkedlist" -> "SinglyLinkedList"
    [] kind = "doublylinkedlist" -> "DoublyLinkedList"
    [] kind = "hashset" -> "HashSet"
    [] kind = "treeset" -> "TreeSet"
    [] kind = "linkedhashset" -> "LinkedHashSet"
    [] kind = "arraystack" -> "ArrayStack"
    [] kind = "linkedliststack" -> "LinkedListStack"
    [] kind = "arrayqueue" -> "ArrayQueue"
    [] kind = "linkedlistqueue" -> "LinkedListQueue"
    [] kind = "circularbuffer" -> "CircularBuffer"
    [] kind = "priorityqueue" -> "PriorityQueue"
    [] kind = "binaryheap" -> "BinaryHeap"
    [] kind = "hashmap" -> "HashMap"
    [] kind = "treemap" -> "TreeMap"
    [] kind = "linkedhashmap" -> "LinkedHashMap"
    [] kind = "hashbidimap" -> "HashBidiMap"
    [] kind = "treebidimap" -> "TreeBidiMap"
    [] kind = "redblacktree" -> "RedBlackTree"
    [] kind = "avltree" -> "AVLTree"
    [] kind = "btree" -> "BTree"

\* the call itself and the observation that follows it completed normally
Completed(e) == e.panic = FALSE /\ e.timeout = FALSE /\ e.obsbad = FALSE

\* C17: no panic, no time-out, nothing written to file descriptors 1 and 2.
\* (the two documented constructor preconditions are events with op = "NewBad", which MUST panic)
SilentOK(e) == IF e.op = "NewBad" THEN e.panic = TRUE /\ e.out = 0
               ELSE Completed(e) /\ e.out = 0

\* C15 on an observation o of a container of this kind
SizeOK(kind, o, hasKeys) ==
  /\ o.size >= 0
  /\ o.empty = (o.size = 0)
  /\ Len(o.vals) = o.size
  /\ (hasKeys => Len(o.keys) = o.size)
  /\ o.name = NameOf(kind)

\* C18 / C15: fp = <<before the call, after the call, after the observers ran>> (deep fingerprints of
\* all memory reachable from the container, spare slice capacity included)
PureOK(e) == /\ e.fp[2] = e.fp[3]                    \* the observers used for the observation
             /\ (~e.mut => e.fp[1] = e.fp[2])         \* a read-only call
=============================================================================
