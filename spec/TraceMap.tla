------------------------------- MODULE TraceMap -------------------------------
(* Trace specification for the key-value containers (family "map"):             *)
(* HashMap, TreeMap, LinkedHashMap, RedBlackTree, AVLTree, BTree, HashBidiMap,  *)
(* TreeBidiMap.  Properties C01 C02 C07 C09 C10 (+ C15 C17 C18).                *)
(* The abstract state is the sequence of <<key, value>> entries in enumeration  *)
(* order (AbsMap); for the hash kinds, whose enumeration order is unspecified,  *)
(* the entries are normalised by key.                                           *)
EXTENDS AbsMap, Generic, Shape, Json, IOUtils

Trace == ndJsonDeserialize(IOEnv.TRACE)
Prop  == IOEnv.PROP

VARIABLES l, st, src
vars == <<l, st, src>>

Ordered(cfg) == cfg.sorted \/ cfg.linked

\* entries of an observation: Keys() in their order, each with the value Get() reports for it (o.ent[i] = <<key, value, found>>)
EntRaw(o) == TLCEval([i \in DOMAIN o.ent |-> <<o.ent[i][1], o.ent[i][2]>>])
\* hash kinds enumerate in an unspecified order: their entries are put in key order.  SetToSeq lists a set of
\* <<key, value>> pairs in TLC's own element order, which is by key; should it ever not be, sort.
ByKey(q) == \A i \in 1..Len(q)-1 : q[i][1] <= q[i+1][1]
Ent(cfg, o) == IF Ordered(cfg) THEN EntRaw(o)
               ELSE LET q == SetToSeq(AsSet(EntRaw(o))) IN
                    IF ByKey(q) THEN q ELSE SortSeq(q, LAMBDA a, b : a[1] < b[1])

\* Keys (and, in a TreeBidiMap, values) that the comparator cannot tell apart are ONE key / value: which
\* representative a lookup hands back is free (the two trees of a TreeBidiMap may each keep their own)
GetKeyOK(cfg, s, v, ret) ==
  LET h == VHits(cfg, s, v) IN
  IF h = {} THEN ret = <<cfg.zero, FALSE>>
  ELSE ret[2] = TRUE /\ KeyEq(cfg, ret[1], K(s[CHOOSE i \in h : TRUE]))
VRanks(cfg, vs) == [i \in DOMAIN vs |-> IF cfg.vsorted THEN Rank(cfg.vcmp, vs[i]) ELSE vs[i]]
ValsBagOK(cfg, vals, s) == SameBag(VRanks(cfg, vals), VRanks(cfg, Vals(s)))

\* ---- well-formedness of one observation -------------------------------------------------------
ObsWF(cfg, o) ==
  LET s == Ent(cfg, o) IN
  /\ o.size = Len(o.keys)
  /\ Len(o.vals) = Len(o.keys)
  /\ Len(o.ent) = Len(o.keys) /\ Len(s) = Len(o.keys)
  /\ \A i \in DOMAIN o.ent : o.ent[i][1] = o.keys[i] /\ o.ent[i][3] = TRUE     \* Get finds every key that Keys() lists
  /\ OneKeyEach(cfg, s)                                            \* every live key exactly once
  /\ IF cfg.aligned THEN o.vals = Vals(s) ELSE ValsBagOK(cfg, o.vals, s)
  /\ \A i \in DOMAIN o.get : <<o.get[i][2], o.get[i][3]>> = GetRet(cfg, s, o.get[i][1], cfg.zero)
  /\ (cfg.bidi => /\ OneToOne(cfg, s)
                  /\ \A i \in DOMAIN o.getkey :
                       GetKeyOK(cfg, s, o.getkey[i][1], <<o.getkey[i][2], o.getkey[i][3]>>))

RetOK(cfg, s, e) ==
  CASE e.op = "Get"    -> e.r = GetRet(cfg, s, e.a.i, cfg.zero)
    [] e.op = "GetKey" -> GetKeyOK(cfg, s, e.a.v, e.r)
    [] e.op = "Keys"   -> IF Ordered(cfg) THEN e.r = <<Keys(s)>> ELSE SameBag(e.r[1], Keys(s))
    [] e.op = "Values" -> IF cfg.aligned THEN e.r = <<Vals(s)>> ELSE ValsBagOK(cfg, e.r[1], s)
    [] e.op = "Size"   -> e.r = <<Len(s)>>
    [] e.op = "Empty"  -> e.r = <<s = <<>> >>
    [] e.op = "String" -> e.r = <<NameOf(e.kind)>>
    [] OTHER           -> e.r = <<>>

TransOK(cfg, s, e, t) ==
  CASE e.op = "Put"    -> IF cfg.bidi THEN BidiPutAllowed(cfg, s, e.a.i, e.a.v, t)
                          ELSE PutAllowed(cfg, s, e.a.i, e.a.v, t)
    [] e.op = "Remove" -> RemoveAllowed(cfg, s, e.a.i, t)
    [] e.op = "Clear"  -> t = <<>>
    [] OTHER           -> t = s

\* ---- C12 on a load inside a map history (input <<k1, v1, k2, v2, ...>>: member names all different, values all different) ----
\* Names that the comparator cannot tell apart denote ONE key: which of them stays as the key object, and which of their
\* values survives, depends on the order in which the loader meets them (a Go map, for most kinds) and is free.
LoadPairs(vs) == [i \in 1..(Len(vs) \div 2) |-> <<vs[2 * i - 1], vs[2 * i]>>]
C12(pre, e) == e.op = "FromJSON" =>
  /\ Completed(e)
  /\ LET cfg == e.cfg  t == Ent(cfg, e.post)  in == LoadPairs(e.a.vs)
         namesIn == {K(in[j]) : j \in DOMAIN in}
         keysIn  == {KKey(cfg, K(in[j])) : j \in DOMAIN in}
         kvIn    == {<<KKey(cfg, K(in[j])), V(in[j])>> : j \in DOMAIN in} IN
       IF ~e.r[1] THEN t = Ent(cfg, pre)
       ELSE /\ OneKeyEach(cfg, t)
            /\ {KKey(cfg, K(t[i])) : i \in DOMAIN t} = keysIn                       \* every key of the input, nothing else
            /\ \A i \in DOMAIN t : K(t[i]) \in namesIn /\ <<KKey(cfg, K(t[i])), V(t[i])>> \in kvIn
            /\ (Cardinality(keysIn) = Len(in) => AsSet(t) = AsSet(in))              \* no two names are one key: exactly the pairs
            /\ (cfg.linked => t = in)                                               \* textual order
            /\ SortedOK(cfg, t)
  /\ ObsWF(e.cfg, e.post)

\* ---- C01: the containers behave as a map -------------------------------------------------------
C01(pre, e) ==
  e.op # "FromJSON" =>
  /\ Completed(e)
  /\ LET cfg == e.cfg  s == Ent(cfg, pre)  t == Ent(cfg, e.post) IN
     /\ TransOK(cfg, s, e, t)
     /\ RetOK(cfg, s, e)
     /\ ObsWF(cfg, e.post)

\* ---- C02: sorted enumeration and navigation ----------------------------------------------------
NavOK(cfg, s, o) ==
  o.hasnav =>
    /\ MinOK(cfg, s, <<o.left[1], o.left[3]>>)  /\ (o.left[3]  => o.left[2]  = V(s[1]))
    /\ MaxOK(cfg, s, <<o.right[1], o.right[3]>>) /\ (o.right[3] => o.right[2] = V(s[Len(s)]))
    /\ \A i \in DOMAIN o.floor : LET f == o.floor[i] IN
          /\ FloorOK(cfg, s, f[1], <<f[2], f[4]>>)
          /\ (f[4] => <<f[3], TRUE>> = GetRet(cfg, s, f[2], cfg.zero))
    /\ \A i \in DOMAIN o.ceil : LET c == o.ceil[i] IN
          /\ CeilingOK(cfg, s, c[1], <<c[2], c[4]>>)
          /\ (c[4] => <<c[3], TRUE>> = GetRet(cfg, s, c[2], cfg.zero))
\* beyond the listed operations (same property, further navigation API): GetNode finds exactly the
\* live keys; AVL Node.Next / Node.Prev are the in-order neighbours
MoreNavOK(cfg, s, o) ==
  /\ \A i \in DOMAIN o.gn : LET g == o.gn[i]  h == Hits(cfg, s, g[1]) IN
        /\ g[3] = (h # {})
        /\ (g[3] => KeyEq(cfg, g[2], g[1]))
  /\ \A i \in DOMAIN o.succ : LET r == o.succ[i]
                                     p == CHOOSE j \in DOMAIN s : K(s[j]) = r[1] IN
        /\ r[3] = (p < Len(s)) /\ (r[3] => r[2] = K(s[p + 1]))
        /\ r[5] = (p > 1)      /\ (r[5] => r[4] = K(s[p - 1]))
C02(pre, e) ==
  e.cfg.sorted =>
    LET cfg == e.cfg  o == e.post  s == EntRaw(o) IN
    /\ Completed(e)                                                  \* the enumeration itself must complete
    /\ SortedOK(cfg, s)                                              \* Keys() strictly ascending
    /\ (cfg.aligned => o.vals = Vals(s))                             \* Values() in key order
    /\ (cfg.vsorted => Ascending(cfg.vcmp, o.vals))                  \* TreeBidiMap: values by the value comparator
    /\ (o.hasiter => o.iter = s)                                     \* iteration in the same order
    /\ NavOK(cfg, s, o)
    /\ MoreNavOK(cfg, s, o)

\* ---- C07: balance (shape of the exported structure, comparator work) ---------------------------
C07(pre, e) ==
  Completed(e) =>
    /\ ShapeOK(e.cfg, e.post.shape, e.post.size, e.post.height)
    /\ (e.op \in {"Get", "Put", "Remove"} => WorkOK(e.cfg.tree, e.cfg.m, pre.size, e.cmps))

\* ---- C09: linked hash map iterates in insertion order ------------------------------------------
C09(pre, e) ==
  (e.cfg.linked /\ e.op # "FromJSON") =>
    LET cfg == e.cfg  o == e.post  s == EntRaw(pre)  t == EntRaw(o) IN
    /\ Completed(e)
    /\ TransOK(cfg, s, e, t)                 \* a present key never moves, a new key goes last, Remove keeps the rest
    /\ (o.hasiter => o.iter = t) /\ (o.haseach => o.each = t)   \* iterator and Each follow Keys() (taken in every observation
    /\ o.vals = Vals(t)                                          \*  but those of the scale scripts, which list Keys / Values only)
    /\ (o.hasj => o.jkeys = Keys(t))                             \* textual order of ToJSON

\* ---- C10: bidirectional maps are one-to-one ----------------------------------------------------
C10(pre, e) ==
  (e.cfg.bidi /\ e.op # "FromJSON") =>
    LET cfg == e.cfg  o == e.post  s == Ent(cfg, pre)  t == Ent(cfg, o) IN
    /\ Completed(e)
    /\ TransOK(cfg, s, e, t)
    /\ OneToOne(cfg, t) /\ OneKeyEach(cfg, t)
    /\ o.size = Len(o.keys) /\ o.size = Len(o.vals)
    /\ ValsBagOK(cfg, o.vals, t)
    /\ \A i \in DOMAIN o.get : <<o.get[i][2], o.get[i][3]>> = GetRet(cfg, t, o.get[i][1], cfg.zero)
    /\ \A i \in DOMAIN o.getkey : GetKeyOK(cfg, t, o.getkey[i][1], <<o.getkey[i][2], o.getkey[i][3]>>)
    /\ RetOK(cfg, s, e)

C15(pre, e) ==
  Completed(e) =>
    /\ SizeOK(e.kind, e.post, TRUE)
    /\ (e.post.nsz >= 0 => e.post.nsz = e.post.size)              \* Root.Size() (red-black, AVL) counts the same nodes
    /\ (e.op = "Clear" => e.post.keys = <<>> /\ e.post.vals = <<>> /\ e.post.size = 0 /\ e.post.empty)
    /\ PureOK(e)

\* observations of hash kinds list keys in an unspecified order: compare entry sets
SameObs(cfg, a, b) == IF Ordered(cfg) THEN a = b
                      ELSE Ent(cfg, a) = Ent(cfg, b) /\ a.size = b.size /\ a.get = b.get /\ a.getkey = b.getkey
C18(pre, e) == Completed(e) => PureOK(e) /\ (~e.mut => SameObs(e.cfg, e.post, pre))

Obl(p, pre, e) ==
  IF e.op = "NewBad" THEN (p = "C17" => SilentOK(e))      \* a documented constructor precondition: must panic (Generic)
  ELSE
  CASE p = "C01" -> C01(pre, e)
    [] p = "C02" -> C02(pre, e)
    [] p = "C07" -> C07(pre, e)
    [] p = "C09" -> C09(pre, e)
    [] p = "C10" -> C10(pre, e)
    [] p = "C12" -> C12(pre, e)
    [] p = "C15" -> C15(pre, e)
    [] p = "C17" -> SilentOK(e)
    [] p = "C18" -> C18(pre, e)

Init == l = 1 /\ st = 0 /\ src = 0
Step ==
  /\ l <= Len(Trace)
  /\ LET e   == Trace[l]
         pre == IF e.rs = 1 THEN e.pre ELSE IF e.rs = 2 THEN src ELSE st
     IN /\ IF Obl(Prop, pre, e) = TRUE THEN TRUE ELSE PrintT("REJECT|" \o ToString(l))
        /\ st' = IF e.obsbad THEN pre ELSE e.post
        /\ src' = IF e.rs = 1 THEN e.pre ELSE src
  /\ l' = l + 1
Spec == Init /\ [][Step]_vars
Accepted == TLCGet("stats").diameter - 1 = Len(Trace)
=============================================================================
