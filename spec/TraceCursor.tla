------------------------------- MODULE TraceCursor -------------------------------
(* Trace specification for the 18 iterator types (family "cur", C08).            *)
(* A "NewIter" event starts a walk: it carries the container's sequence of       *)
(* <<index or key, value>> pairs; the iterator is fresh, i.e. at position -1     *)
(* (e.at = -1), or was made by RedBlackTree.IteratorAt(GetNode(key)) and starts  *)
(* on the position e.at of that key.                                             *)
(* The cursor position is HIDDEN specification state: it is never logged, the    *)
(* spec computes it from the calls (AbsCursor!Move) and checks what the real     *)
(* iterator returned and exposed after every call.                               *)
EXTENDS AbsCursor, Generic, Json, IOUtils

Trace == ndJsonDeserialize(IOEnv.TRACE)
Prop  == IOEnv.PROP

\* sl = the line of the walk's NewIter event: the walked sequence is read from there (it can be thousands of pairs long
\* and would otherwise be copied into every state of the trace)
VARIABLES l, sl, pos
vars == <<l, sl, pos>>
seq == IF sl = 0 THEN <<>> ELSE Trace[sl].seq

IsMove(e) == e.op \notin {"NewIter", "EndIter", "Modified"}
\* A "Modified" event: the container was modified while the iterator was kept; the event carries the container's NEW
\* sequence.  Where the kept iterator stands then is not specified (pos = Stale) until it is rewound by one of the
\* absolute jumps Begin / End / First / Last - from which on it is a cursor over the new sequence.  (The library's own
\* tests create iterators on empty containers, fill the containers and rewind.)
Stale == -7
Absolute(op) == op \in {"Begin", "End", "First", "Last"}

\* a relative move from the unspecified position of a kept iterator: outside C08 (C17 still requires it to return silently)
StaleMove(e) == IsMove(e) /\ pos = Stale /\ ~Absolute(e.op)
C08(e) == StaleMove(e) \/
  /\ Completed(e)
  /\ (IsMove(e) /\ (pos # Stale \/ Absolute(e.op))) =>
       LET q == Move(seq, pos, e.op, e.p) IN
       /\ Returns(e.op) => e.ret = Inside(seq, q)
       \* the harness reads Index()/Key()/Value() only after a successful move, and not after every one (e.has)
       /\ (e.has => Returns(e.op) /\ Inside(seq, q))
       /\ (Returns(e.op) /\ Inside(seq, q) /\ e.has) =>
            /\ e.key = seq[q + 1][1]          \* Index() / Key() of the position
            /\ e.val = seq[q + 1][2]          \* Value() of the position
Obl(p, e) ==
  CASE p = "C08" -> C08(e)
    [] p = "C17" -> Completed(e) /\ e.out = 0
    [] p = "C18" -> e.pure = TRUE             \* iterating did not modify the container

Init == l = 1 /\ sl = 0 /\ pos = -1
Step ==
  /\ l <= Len(Trace)
  /\ LET e == Trace[l] IN
     /\ IF Obl(Prop, e) = TRUE THEN TRUE ELSE PrintT("REJECT|" \o ToString(l))
     /\ IF e.op = "NewIter" THEN sl' = l /\ pos' = e.at           \* -1, or the position IteratorAt(node) starts on
        ELSE IF e.op = "EndIter" THEN UNCHANGED <<sl, pos>>
        ELSE IF e.op = "Modified" THEN sl' = l /\ pos' = Stale
        ELSE sl' = sl /\ pos' = (IF pos = Stale /\ ~Absolute(e.op) THEN Stale ELSE Move(seq, pos, e.op, e.p))
  /\ l' = l + 1
Spec == Init /\ [][Step]_vars
Accepted == TLCGet("stats").diameter - 1 = Len(Trace)
=============================================================================
