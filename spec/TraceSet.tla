------------------------------- MODULE TraceSet -------------------------------
(* Trace specification for HashSet, TreeSet, LinkedHashSet (family "set").      *)
(* C04 membership, C09 insertion order (LinkedHashSet), C02 sorted order        *)
(* (TreeSet), + C15 C17 C18.  State = members in enumeration order (AbsSet).    *)
EXTENDS AbsSet, Generic, Json, IOUtils

Trace == ndJsonDeserialize(IOEnv.TRACE)
Prop  == IOEnv.PROP

VARIABLES l, st, src
vars == <<l, st, src>>

Ordered(cfg) == cfg.sorted \/ cfg.linked
SetPost(cfg, s, e) ==
  CASE e.op = "Add"    -> AddAll(cfg, s, e.a.vs)
    [] e.op = "Remove" -> RemoveAll(cfg, s, e.a.vs)
    [] e.op = "Clear"  -> <<>>
    [] e.op = "New"    -> AddAll(cfg, <<>>, e.a.vs)
    [] OTHER           -> s
RetOK(cfg, s, e) ==
  CASE e.op = "Contains" -> e.r = <<ContainsRet(cfg, s, e.a.vs)>>
    [] e.op = "Values"   -> SameSet(cfg, e.r[1], s)
    [] e.op = "Size"     -> e.r = <<Len(s)>>
    [] e.op = "Empty"    -> e.r = <<s = <<>> >>
    [] e.op = "String"   -> e.r = <<NameOf(e.kind)>>
    [] OTHER             -> e.r = <<>>
\* every member exactly once, membership table exact, Size = number of distinct members
ObsWF(cfg, o) ==
  /\ o.size = Len(o.vals)
  /\ NoDupKeys(cfg, o.vals)
  /\ LET K == KeySet(cfg, o.vals) IN \A i \in DOMAIN o.has : o.has[i][2] = (KeyOf(cfg, o.has[i][1]) \in K)
  /\ o.cnone = TRUE

\* C04 does not prescribe an enumeration order: membership only (order is C09 / C02);
\* key equality is the kind's own (Go == or comparator equivalence)
LoadPost(cfg, pre, e) == IF e.r[1] THEN AddAll(cfg, <<>>, e.a.vs) ELSE pre.vals
C12(pre, e) == e.op = "FromJSON" =>
  /\ Completed(e)
  /\ LET want == LoadPost(e.cfg, pre, e) IN
       /\ Len(e.post.vals) = Len(want)
       /\ KeySet(e.cfg, want) \subseteq KeySet(e.cfg, e.post.vals)
       /\ SameSet(e.cfg, e.post.vals, want)        \* same order for sorted / linked kinds; the representative of
                                                    \* comparator-equal members is free
  /\ ObsWF(e.cfg, e.post)
C04x(pre, e) ==
  e.op # "FromJSON" =>
  /\ Completed(e)
  /\ LET want == SetPost(e.cfg, pre.vals, e) IN
       /\ Len(e.post.vals) = Len(want)
       /\ KeySet(e.cfg, want) = KeySet(e.cfg, e.post.vals)
  /\ RetOK(e.cfg, pre.vals, e)
  /\ ObsWF(e.cfg, e.post)

\* C09: LinkedHashSet enumerates in insertion order (Values, iterator, Each, ToJSON)
C09(pre, e) ==
  (e.cfg.linked /\ e.op # "FromJSON") =>
    /\ Completed(e)
    /\ e.post.vals = SetPost(e.cfg, pre.vals, e)
    /\ e.post.iter = e.post.vals /\ e.post.each = e.post.vals /\ e.post.jvals = e.post.vals

\* C02: TreeSet enumerates in strictly ascending comparator order
C02(pre, e) ==
  e.cfg.sorted =>
    /\ Completed(e)
    /\ Ascending(e.cfg.cmp, e.post.vals)
    /\ e.post.iter = e.post.vals /\ e.post.each = e.post.vals

C15(pre, e) ==
  Completed(e) =>
    /\ SizeOK(e.kind, e.post, FALSE)
    /\ (e.op = "Clear" => e.post.vals = <<>> /\ e.post.size = 0 /\ e.post.empty)
    /\ PureOK(e)

SameObs(cfg, a, b) == IF Ordered(cfg) THEN a = b
                      ELSE Members(a.vals) = Members(b.vals) /\ a.size = b.size /\ a.has = b.has
C18(pre, e) == Completed(e) => PureOK(e) /\ (~e.mut => SameObs(e.cfg, e.post, pre))

Obl(p, pre, e) ==
  CASE p = "C04" -> C04x(pre, e)
    [] p = "C09" -> C09(pre, e)
    [] p = "C02" -> C02(pre, e)
    [] p = "C12" -> C12(pre, e)
    [] p = "C15" -> C15(pre, e)
    [] p = "C17" -> SilentOK(e)
    [] p = "C18" -> C18(pre, e)

Init == l = 1 /\ st = 0 /\ src = 0
Step ==
  /\ l <= Len(Trace)
  /\ LET e   == Trace[l]
         pre == IF e.rs = 1 THEN e.pre ELSE IF e.rs = 2 THEN src ELSE st
     IN /\ IF Obl(Prop, pre, e) = TRUE THEN TRUE ELSE PrintT("REJECT|" \o ToString(l))
        /\ st' = IF e.obsbad THEN pre ELSE e.post
        /\ src' = IF e.rs = 1 THEN e.pre ELSE src
  /\ l' = l + 1
Spec == Init /\ [][Step]_vars
Accepted == TLCGet("stats").diameter - 1 = Len(Trace)
=============================================================================
