------------------------------- MODULE DLLIter -------------------------------
(* Implementation-shaped model of lists/doublylinkedlist/iterator.go over the  *)
(* cell-level list model DLL: the iterator is (index, element pointer).  Next  *)
(* follows element.next except at index 0 (re-anchors on list.first), Prev     *)
(* follows element.prev except at index size-1 (re-anchors on list.last); End  *)
(* parks the pointer on list.last.  LinkedHashSet and LinkedHashMap iterate    *)
(* their order list with it.  Checked against the cursor of AbsCursor (C08);   *)
(* a nil dereference is an explicit `ipanic` outcome (C17).                    *)
(* KEPT ITERATORS: `Mutate` lets any list operation happen while the iterator   *)
(* exists; the iterator is then `stale` until an absolute jump (C08 says        *)
(* nothing about it meanwhile) but no move and no Value() after a successful    *)
(* move may dereference nil (C17: any interleaving).  Repaired = FALSE is the   *)
(* iterator as it was before fix 77df476 (finding F10): TLC then answers with   *)
(* the history  walk to the end, Add, Add, Next  (spec/MCDLLIter_f10.cfg, which *)
(* bin/selftest requires TLC to reject); Repaired = TRUE is the code as it is.  *)
EXTENDS DLL, AbsCursor
CONSTANT Repaired
VARIABLES idx, el, pos, ret, opened, ipanic, stale
ivars == <<L, last, idx, el, pos, ret, opened, ipanic, stale>>
\* a cell that left the list keeps its links in Go; the model frees it (links -1): following them yields a dangling, non-nil pointer
Dangling == -1
Nxt(x) == IF x = Dangling THEN Dangling ELSE L.n[x].next
Prv(x) == IF x = Dangling THEN Dangling ELSE L.n[x].prev
Seq0 == LET vs == Values(L) IN [i \in DOMAIN vs |-> <<i - 1, vs[i]>>]
NextS ==   \* returns <<index, element, result, panicked>>
  LET i1 == IF idx < L.size THEN idx + 1 ELSE idx IN
  IF ~WithinRange(L, i1) THEN <<i1, Nil, FALSE, FALSE>>
  ELSE IF i1 = 0 THEN <<i1, L.first, TRUE, FALSE>>
  ELSE IF Repaired THEN LET e1 == IF el = Nil THEN Nil ELSE Nxt(el)                                       \* element.next, if there is an element
                        IN <<i1, IF e1 = Nil THEN WalkFwd(L, L.first, i1) ELSE e1, TRUE, FALSE>>           \* reanchor()
  ELSE (IF el = Nil THEN <<i1, Nil, FALSE, TRUE>> ELSE <<i1, Nxt(el), TRUE, FALSE>>)                      \* element.next
PrevS ==
  LET i1 == IF idx >= 0 THEN idx - 1 ELSE idx IN
  IF ~WithinRange(L, i1) THEN <<i1, Nil, FALSE, FALSE>>
  ELSE IF i1 = L.size - 1 THEN <<i1, L.last, TRUE, FALSE>>
  ELSE IF Repaired THEN LET e1 == IF el = Nil THEN Nil ELSE Prv(el)
                        IN <<i1, IF e1 = Nil THEN WalkFwd(L, L.first, i1) ELSE e1, TRUE, FALSE>>
  ELSE (IF el = Nil THEN <<i1, Nil, FALSE, TRUE>> ELSE <<i1, Prv(el), TRUE, FALSE>>)                      \* element.prev
Pr == [name |-> "true", m |-> 0, r |-> 0, i |-> 0]
IInit == Init /\ idx = -1 /\ el = Nil /\ pos = -1 /\ ret = FALSE /\ opened = FALSE /\ ipanic = FALSE /\ stale = FALSE
Build == ~opened /\ Next /\ UNCHANGED <<idx, el, pos, ret, opened, ipanic, stale>>
Open  == ~opened /\ ~L.panic /\ opened' = TRUE /\ UNCHANGED <<L, last, idx, el, pos, ret, ipanic, stale>>
\* the list is modified while the iterator is kept (a cell that leaves the list leaves the iterator with a dangling pointer)
Mutate == /\ opened /\ ~ipanic /\ ~L.panic /\ Next /\ stale' = TRUE
          /\ el' = (IF el # Nil /\ el # Dangling /\ L'.n[el].prev = -1 THEN Dangling ELSE el)
          /\ ret' = FALSE                                  \* (a value is read only after a successful move)
          /\ UNCHANGED <<idx, pos, opened, ipanic>>
Absolute(op) == op \in {"Begin", "End", "First", "Last"}
Do(op, r) == /\ opened /\ ~ipanic /\ ~L.panic
             /\ idx' = r[1] /\ el' = r[2] /\ ret' = r[3] /\ ipanic' = r[4]
             /\ stale' = (stale /\ ~Absolute(op))
             /\ pos' = (IF stale' THEN pos ELSE Move(Seq0, pos, op, Pr)) /\ UNCHANGED <<L, last, opened>>
\* First = Begin; Next   and   Last = End; Prev
FirstS == LET i1 == IF -1 < L.size THEN 0 ELSE -1 IN IF ~WithinRange(L, i1) THEN <<i1, Nil, FALSE, FALSE>> ELSE <<0, L.first, TRUE, FALSE>>
LastS  == LET i1 == L.size - 1 IN IF ~WithinRange(L, i1) THEN <<i1, Nil, FALSE, FALSE>> ELSE <<i1, L.last, TRUE, FALSE>>
INext == \/ Build \/ Open \/ Mutate
         \/ Do("Next", NextS) \/ Do("Prev", PrevS)
         \/ Do("Begin", <<-1, Nil, FALSE, FALSE>>) \/ Do("End", <<L.size, L.last, FALSE, FALSE>>)
         \/ Do("First", FirstS) \/ Do("Last", LastS)
ISpec == IInit /\ [][INext]_ivars
CursorInv == (opened /\ ~ipanic /\ ~stale /\ ~L.panic) =>
   /\ idx = pos                                                           \* Index()
   /\ ret = Inside(Seq0, pos)
   /\ (Inside(Seq0, pos) => el # Nil /\ L.n[el].value = Seq0[pos + 1][2])  \* Value()
NoIterPanic == ~ipanic
\* Value() after a move that returned true: there is an element (stale or not)
NoValuePanic == (opened /\ ret) => el # Nil
RECURSIVE PosOf(_, _, _)
PosOf(t, x, from) == IF from = Nil THEN -2 ELSE IF from = x THEN 0 ELSE
                     LET p == PosOf(t, x, t.n[from].next) IN IF p = -2 THEN -2 ELSE p + 1
\* the element pointer is identified by the position of its cell in the chain (cell ids are allocation noise)
IView == <<Values(L), L.panic, idx, IF el = Nil THEN -1 ELSE IF el = Dangling THEN -3 ELSE PosOf(L, el, L.first), pos, opened, ipanic, stale, ret>>
=============================================================================
