------------------------------- MODULE DLLIter -------------------------------
(* Implementation-shaped model of lists/doublylinkedlist/iterator.go over the  *)
(* cell-level list model DLL: the iterator is (index, element pointer).  Next  *)
(* follows element.next except at index 0 (re-anchors on list.first), Prev     *)
(* follows element.prev except at index size-1 (re-anchors on list.last); End  *)
(* parks the pointer on list.last.  LinkedHashSet and LinkedHashMap iterate    *)
(* their order list with it.  Checked against the cursor of AbsCursor (C08);   *)
(* a nil dereference is an explicit `ipanic` outcome (C17).                    *)
EXTENDS DLL, AbsCursor
VARIABLES idx, el, pos, ret, opened, ipanic
ivars == <<L, last, idx, el, pos, ret, opened, ipanic>>
Seq0 == LET vs == Values(L) IN [i \in DOMAIN vs |-> <<i - 1, vs[i]>>]
NextS ==   \* returns <<index, element, result, panicked>>
  LET i1 == IF idx < L.size THEN idx + 1 ELSE idx IN
  IF ~WithinRange(L, i1) THEN <<i1, Nil, FALSE, FALSE>>
  ELSE IF i1 # 0 THEN (IF el = Nil THEN <<i1, Nil, FALSE, TRUE>> ELSE <<i1, L.n[el].next, TRUE, FALSE>>)   \* element.next
  ELSE <<i1, L.first, TRUE, FALSE>>
PrevS ==
  LET i1 == IF idx >= 0 THEN idx - 1 ELSE idx IN
  IF ~WithinRange(L, i1) THEN <<i1, Nil, FALSE, FALSE>>
  ELSE IF i1 = L.size - 1 THEN <<i1, L.last, TRUE, FALSE>>
  ELSE (IF el = Nil THEN <<i1, Nil, FALSE, TRUE>> ELSE <<i1, L.n[el].prev, TRUE, FALSE>>)                    \* element.prev
Pr == [name |-> "true", m |-> 0, r |-> 0, i |-> 0]
IInit == Init /\ idx = -1 /\ el = Nil /\ pos = -1 /\ ret = FALSE /\ opened = FALSE /\ ipanic = FALSE
Build == ~opened /\ Next /\ UNCHANGED <<idx, el, pos, ret, opened, ipanic>>
Open  == ~opened /\ ~L.panic /\ opened' = TRUE /\ UNCHANGED <<L, last, idx, el, pos, ret, ipanic>>
Do(op, r) == /\ opened /\ ~ipanic
             /\ idx' = r[1] /\ el' = r[2] /\ ret' = r[3] /\ ipanic' = r[4]
             /\ pos' = Move(Seq0, pos, op, Pr) /\ UNCHANGED <<L, last, opened>>
\* First = Begin; Next   and   Last = End; Prev
FirstS == LET i1 == IF -1 < L.size THEN 0 ELSE -1 IN IF ~WithinRange(L, i1) THEN <<i1, Nil, FALSE, FALSE>> ELSE <<0, L.first, TRUE, FALSE>>
LastS  == LET i1 == L.size - 1 IN IF ~WithinRange(L, i1) THEN <<i1, Nil, FALSE, FALSE>> ELSE <<i1, L.last, TRUE, FALSE>>
INext == \/ Build \/ Open
         \/ Do("Next", NextS) \/ Do("Prev", PrevS)
         \/ Do("Begin", <<-1, Nil, FALSE, FALSE>>) \/ Do("End", <<L.size, L.last, FALSE, FALSE>>)
         \/ Do("First", FirstS) \/ Do("Last", LastS)
ISpec == IInit /\ [][INext]_ivars
CursorInv == (opened /\ ~ipanic) =>
   /\ idx = pos                                                           \* Index()
   /\ ret = Inside(Seq0, pos)
   /\ (Inside(Seq0, pos) => el # Nil /\ L.n[el].value = Seq0[pos + 1][2])  \* Value()
NoIterPanic == ~ipanic
RECURSIVE PosOf(_, _, _)
PosOf(t, x, from) == IF from = Nil THEN -2 ELSE IF from = x THEN 0 ELSE
                     LET p == PosOf(t, x, t.n[from].next) IN IF p = -2 THEN -2 ELSE p + 1
\* the element pointer is identified by the position of its cell in the chain (cell ids are allocation noise)
IView == <<Values(L), L.panic, idx, IF el = Nil THEN -1 ELSE PosOf(L, el, L.first), pos, opened, ipanic>>
=============================================================================
