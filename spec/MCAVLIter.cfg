SPECIFICATION ISpec
CONSTANTS
  KeyU = {1, 2, 3, 4, 5, 6}
  ValU = {1}
  MaxNodes = 6
INVARIANT CursorInv
VIEW IView
CHECK_DEADLOCK FALSE
