------------------------------- MODULE BT -------------------------------
(* Implementation-shaped (pointer-level) model of trees/btree/btree.go: nodes   *)
(* with Entries (<<key, value>>), Children, Parent; the cached size and order   *)
(* m; insert / insertIntoLeaf / insertIntoInternal, split / splitRoot /         *)
(* splitNonRoot, searchRecursively, delete with predecessor swap, rebalance     *)
(* (borrow left, borrow right, merge right, merge left, root collapse), the     *)
(* per-node binary search, leftSibling / rightSibling - each named after the    *)
(* Go function it transcribes.  T.cmps counts the comparator calls of one call. *)
(* Reachable canonical states over 8 keys compared with the real code's for     *)
(* orders 3..6 (466 / 728 / 302 / 359 states, identical).                       *)
EXTENDS Integers, Sequences, FiniteSets, TLC, SequencesExt
CONSTANTS KeyU, ValU, MaxNodes, M
VARIABLES T, last     \* T = [root, size, cmps, n : id -> [e : Seq(<<key, value>>), c : Seq(id), parent]]
vars == <<T, last>>
Nil == 0
Ids == 1..MaxNodes
Null == [e |-> <<>>, c |-> <<>>, parent |-> -1]
Empty == [root |-> Nil, size |-> 0, cmps |-> 0, n |-> TLCEval([i \in Ids |-> Null])]
Tick(t, c) == [t EXCEPT !.cmps = @ + c]
Dom(t) == {i \in Ids : t.n[i].parent # -1}
FreeIds(t, k) == CHOOSE S \in SUBSET (Ids \ Dom(t)) : Cardinality(S) = k /\ \A i \in S, j \in Ids \ Dom(t) : j < i => j \in S
NthFree(t, k) == LET S == Ids \ Dom(t) IN CHOOSE i \in S : Cardinality({j \in S : j < i}) = k - 1
E(t, x) == t.n[x].e
C(t, x) == t.n[x].c
IsLeaf(t, x) == Len(C(t, x)) = 0
MaxEntries == M - 1
MinEntries == ((M + 1) \div 2) - 1
Middle == (M - 1) \div 2
\* binary search exactly as tree.search: returns <<index (0-based), found, comparator calls>>
RECURSIVE BS(_, _, _, _, _)
BS(es, k, lo, hi, c) ==
  IF lo > hi THEN <<lo, FALSE, c>>
  ELSE LET mid == (hi + lo) \div 2 IN
       IF k > es[mid + 1][1] THEN BS(es, k, mid + 1, hi, c + 1)
       ELSE IF k < es[mid + 1][1] THEN BS(es, k, lo, mid - 1, c + 1)
       ELSE <<mid, TRUE, c + 1>>
Search(t, x, k) == BS(E(t, x), k, 0, Len(E(t, x)) - 1, 0)
InsAt(s, i, v) == SubSeq(s, 1, i) \o <<v>> \o SubSeq(s, i + 1, Len(s))    \* i 0-based position
DelAt(s, i) == SubSeq(s, 1, i) \o SubSeq(s, i + 2, Len(s))                \* i 0-based
SetE(t, x, es) == [t EXCEPT !.n[x].e = es]
SetC(t, x, cs) == [t EXCEPT !.n[x].c = cs]
SetP(t, x, p) == [t EXCEPT !.n[x].parent = p]
RECURSIVE SetParents(_, _, _)
SetParents(t, cs, p) == IF cs = <<>> THEN t ELSE SetParents(SetP(t, Head(cs), p), Tail(cs), p)
Free(t, x) == [t EXCEPT !.n[x] = Null]
Alloc(t, id, es, cs, p) == [t EXCEPT !.n[id] = [e |-> es, c |-> cs, parent |-> p]]

RECURSIVE Split(_, _)
SplitRoot(t) ==
  LET r == t.root
      es == E(t, r)  cs == C(t, r)
      l == NthFree(t, 1)  rt == NthFree(t, 2)  nr == NthFree(t, 3)
      leaf == IsLeaf(t, r)
      lc == IF leaf THEN <<>> ELSE SubSeq(cs, 1, Middle + 1)
      rc == IF leaf THEN <<>> ELSE SubSeq(cs, Middle + 2, Len(cs))
      t1 == Alloc(Alloc(t, l, SubSeq(es, 1, Middle), lc, nr), rt, SubSeq(es, Middle + 2, Len(es)), rc, nr)
      t2 == SetParents(SetParents(t1, lc, l), rc, rt)
      t3 == Alloc(t2, nr, <<es[Middle + 1]>>, <<l, rt>>, Nil)
  IN Free([t3 EXCEPT !.root = nr], r)
SplitNonRoot(t, x) ==
  LET p == t.n[x].parent
      es == E(t, x)  cs == C(t, x)
      l == NthFree(t, 1)  rt == NthFree(t, 2)
      leaf == IsLeaf(t, x)
      lc == IF leaf THEN <<>> ELSE SubSeq(cs, 1, Middle + 1)
      rc == IF leaf THEN <<>> ELSE SubSeq(cs, Middle + 2, Len(cs))
      t1 == Alloc(Alloc(t, l, SubSeq(es, 1, Middle), lc, p), rt, SubSeq(es, Middle + 2, Len(es)), rc, p)
      t2 == SetParents(SetParents(t1, lc, l), rc, rt)
      sp == Search(t2, p, es[Middle + 1][1])                    \* insertPosition, _ := tree.search(parent, ...Key)
      ip == sp[1]
      t3 == Tick(SetE(t2, p, InsAt(E(t2, p), ip, es[Middle + 1])), sp[3])
      pc == C(t3, p)
      pc1 == [pc EXCEPT ![ip + 1] = l]
      t4 == SetC(t3, p, InsAt(pc1, ip + 1, rt))
  IN Split(Free(t4, x), p)
Split(t, x) == IF Len(E(t, x)) <= MaxEntries THEN t
               ELSE IF x = t.root THEN SplitRoot(t) ELSE SplitNonRoot(t, x)

\* insert returns <<t', inserted>> ; ent = <<key, value>>
RECURSIVE Insert(_, _, _)
Insert(t, x, ent) ==
  LET s == Search(t, x, ent[1])
      t0 == Tick(t, s[3]) IN
  IF s[2] THEN <<SetE(t0, x, [E(t0, x) EXCEPT ![s[1] + 1] = ent]), FALSE>>      \* node.Entries[insertPosition] = entry
  ELSE IF IsLeaf(t0, x) THEN <<Split(SetE(t0, x, InsAt(E(t0, x), s[1], ent)), x), TRUE>>
  ELSE Insert(t0, C(t0, x)[s[1] + 1], ent)

PutT(t, k, v) ==
  IF t.root = Nil THEN LET id == NthFree(t, 1) IN [Alloc(t, id, << <<k, v>> >>, <<>>, Nil) EXCEPT !.root = id, !.size = 1]
  ELSE LET r == Insert(t, t.root, <<k, v>>) IN IF r[2] THEN [r[1] EXCEPT !.size = @ + 1] ELSE r[1]

\* searchRecursively: <<node, index, found, comparator calls>>
RECURSIVE SearchRec(_, _, _, _)
SearchRec(t, x, k, c) ==
  LET s == Search(t, x, k) IN
  IF s[2] THEN <<x, s[1], TRUE, c + s[3]>>
  ELSE IF IsLeaf(t, x) THEN <<Nil, -1, FALSE, c + s[3]>>
  ELSE SearchRec(t, C(t, x)[s[1] + 1], k, c + s[3])
RECURSIVE RightMost(_, _)
RightMost(t, x) == IF IsLeaf(t, x) THEN x ELSE RightMost(t, C(t, x)[Len(C(t, x))])

\* leftSibling / rightSibling: <<node, index, comparator calls>>
LeftSibling(t, x, k) ==
  LET p == t.n[x].parent IN
  IF p = Nil THEN <<Nil, -1, 0>>
  ELSE LET s == Search(t, p, k)  i == s[1] - 1 IN
       IF i >= 0 /\ i < Len(C(t, p)) THEN <<C(t, p)[i + 1], i, s[3]>> ELSE <<Nil, -1, s[3]>>
RightSibling(t, x, k) ==
  LET p == t.n[x].parent IN
  IF p = Nil THEN <<Nil, -1, 0>>
  ELSE LET s == Search(t, p, k)  i == s[1] + 1 IN
       IF i < Len(C(t, p)) THEN <<C(t, p)[i + 1], i, s[3]>> ELSE <<Nil, -1, s[3]>>

RECURSIVE Rebalance(_, _, _)
Rebalance(t0, x, dk) ==
  IF x = Nil \/ Len(E(t0, x)) >= MinEntries THEN t0 ELSE
  LET ls == LeftSibling(t0, x, dk)
      borrowLeft == ls[1] # Nil /\ Len(E(t0, ls[1])) > MinEntries
      rs == RightSibling(t0, x, dk)
      t == Tick(t0, ls[3] + (IF borrowLeft THEN 0 ELSE rs[3]))       \* rightSibling is only looked up when not borrowing left
      p == t.n[x].parent
  IN
  IF borrowLeft
  THEN \* rotate right
       LET l == ls[1]  li == ls[2]
           t1 == SetE(t, x, <<E(t, p)[li + 1]>> \o E(t, x))
           t2 == SetE(t1, p, [E(t1, p) EXCEPT ![li + 1] = Last(E(t1, l))])
           t3 == SetE(t2, l, Front(E(t2, l)))
       IN IF IsLeaf(t3, l) THEN t3
          ELSE LET ch == Last(C(t3, l))
                   t4 == SetP(t3, ch, x)
                   t5 == SetC(t4, x, <<ch>> \o C(t4, x))
               IN SetC(t5, l, Front(C(t5, l)))
  ELSE IF rs[1] # Nil /\ Len(E(t, rs[1])) > MinEntries
  THEN \* rotate left
       LET r == rs[1]  ri == rs[2]
           t1 == SetE(t, x, Append(E(t, x), E(t, p)[ri]))
           t2 == SetE(t1, p, [E(t1, p) EXCEPT ![ri] = Head(E(t1, r))])
           t3 == SetE(t2, r, Tail(E(t2, r)))
       IN IF IsLeaf(t3, r) THEN t3
          ELSE LET ch == Head(C(t3, r))
                   t4 == SetP(t3, ch, x)
                   t5 == SetC(t4, x, Append(C(t4, x), ch))
               IN SetC(t5, r, Tail(C(t5, r)))
  ELSE
  LET merged ==
        IF rs[1] # Nil
        THEN LET r == rs[1]  ri == rs[2]
                 t1 == SetE(t, x, Append(E(t, x), E(t, p)[ri]) \o E(t, r))
                 dk1 == E(t, p)[ri][1]
                 t2 == SetE(t1, p, DelAt(E(t1, p), ri - 1))
                 t3 == SetParents(SetC(t2, x, C(t2, x) \o C(t2, r)), C(t2, r), x)
                 t4 == SetC(t3, p, DelAt(C(t3, p), ri))
             IN <<Free(t4, r), dk1>>
        ELSE IF ls[1] # Nil
        THEN LET l == ls[1]  li == ls[2]
                 t1 == SetE(t, x, Append(E(t, l), E(t, p)[li + 1]) \o E(t, x))
                 dk1 == E(t, p)[li + 1][1]
                 t2 == SetE(t1, p, DelAt(E(t1, p), li))
                 t3 == SetParents(SetC(t2, x, C(t2, l) \o C(t2, x)), C(t2, l), x)
                 t4 == SetC(t3, p, DelAt(C(t3, p), li))
             IN <<Free(t4, l), dk1>>
        ELSE <<t, dk>>
      tm == merged[1]
  IN IF tm.n[x].parent = tm.root /\ Len(E(tm, tm.root)) = 0
     THEN SetP(Free([tm EXCEPT !.root = x], tm.root), x, Nil)
     ELSE Rebalance(tm, tm.n[x].parent, merged[2])

DeleteT(t, x, i) ==
  IF IsLeaf(t, x)
  THEN LET dk == E(t, x)[i + 1][1]
           t1 == Rebalance(SetE(t, x, DelAt(E(t, x), i)), x, dk)
       IN IF Len(E(t1, t1.root)) = 0 THEN [Free(t1, t1.root) EXCEPT !.root = Nil] ELSE t1
  ELSE LET ll == RightMost(t, C(t, x)[i + 1])
           li == Len(E(t, ll)) - 1
           dk == E(t, ll)[li + 1][1]
           t1 == SetE(t, x, [E(t, x) EXCEPT ![i + 1] = E(t, ll)[li + 1]])      \* node.Entries[index] = leftLargestNode.Entries[largestEntryIndex]
       IN Rebalance(SetE(t1, ll, DelAt(E(t1, ll), li)), ll, dk)

RemoveT(t, k) ==
  IF t.size = 0 THEN t ELSE
  LET s == SearchRec(t, t.root, k, 0)
      t0 == Tick(t, s[4]) IN
  IF s[3] THEN [DeleteT(t0, s[1], s[2]) EXCEPT !.size = @ - 1] ELSE t0
GetT(t, k) == IF t.root = Nil THEN <<0, FALSE, 0>>
              ELSE LET s == SearchRec(t, t.root, k, 0) IN
                   IF s[3] THEN <<E(t, s[1])[s[2] + 1][2], TRUE, s[4]>> ELSE <<0, FALSE, s[4]>>
\* Height(): levels from the root down the left-most path ; LeftKey / RightKey
RECURSIVE HeightOf(_, _), LeftMostN(_, _), RightMostN(_, _)
HeightOf(t, x) == IF x = Nil THEN 0 ELSE IF IsLeaf(t, x) THEN 1 ELSE 1 + HeightOf(t, C(t, x)[1])
LeftMostN(t, x)  == IF x = Nil THEN Nil ELSE IF IsLeaf(t, x) THEN x ELSE LeftMostN(t, C(t, x)[1])
RightMostN(t, x) == IF x = Nil THEN Nil ELSE IF IsLeaf(t, x) THEN x ELSE RightMostN(t, C(t, x)[Len(C(t, x))])

Op(name, k, v, t) == /\ T' = TLCEval([t EXCEPT !.cmps = 0])
                     /\ last' = [op |-> name, k |-> k, v |-> v, cmps |-> t.cmps, n |-> T.size]
Init == T = Empty /\ last = [op |-> "New", k |-> 0, v |-> 0, cmps |-> 0, n |-> 0]
PutK(k, v) == Op("Put", k, v, PutT(T, k, v))
RemoveK(k) == Op("Remove", k, 0, RemoveT(T, k))
GetK(k)    == Op("Get", k, 0, Tick(T, GetT(T, k)[3]))
ClearK     == Op("Clear", 0, 0, Empty)
Next == (\E k \in KeyU, v \in ValU : PutK(k, v)) \/ (\E k \in KeyU : RemoveK(k) \/ GetK(k)) \/ ClearK
Spec == Init /\ [][Next]_vars

RECURSIVE Canon(_, _)
Canon(t, x) == IF x = Nil THEN <<>> ELSE <<E(t, x), [i \in 1..Len(C(t, x)) |-> Canon(t, C(t, x)[i])]>>
View == Canon(T, T.root)
RECURSIVE InOrder(_, _)
InOrder(t, x) == IF x = Nil THEN <<>> ELSE
   IF IsLeaf(t, x) THEN E(t, x) ELSE
   LET F[i \in 0..Len(E(t, x))] == IF i = 0 THEN InOrder(t, C(t, x)[1]) ELSE F[i-1] \o <<E(t, x)[i]>> \o InOrder(t, C(t, x)[i + 1]) IN F[Len(E(t, x))]
RECURSIVE Depths(_, _, _)
Depths(t, x, d) == IF IsLeaf(t, x) THEN {d} ELSE UNION {Depths(t, C(t, x)[i], d + 1) : i \in 1..Len(C(t, x))}
\* the B-tree invariants of the representation
BTInv == /\ (T.root = Nil <=> T.size = 0)
         /\ T.root # Nil =>
            /\ Len(InOrder(T, T.root)) = T.size                       \* cached size = number of entries
            /\ Cardinality(Depths(T, T.root, 1)) = 1
            /\ T.n[T.root].parent = Nil
            /\ \A x \in Dom(T) : /\ Len(E(T, x)) <= MaxEntries
                                  /\ (x # T.root => Len(E(T, x)) >= MinEntries)
                                  /\ Len(E(T, x)) >= 1
                                  /\ (~IsLeaf(T, x) => Len(C(T, x)) = Len(E(T, x)) + 1)
                                  /\ \A i \in 1..Len(C(T, x)) : T.n[C(T, x)[i]].parent = x
=============================================================================
