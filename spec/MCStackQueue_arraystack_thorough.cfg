SPECIFICATION Spec
CONSTANTS
  Kind = "arraystack"
  ValU = {0, 1, 2}
  MaxLen = 6
PROPERTIES Refines
CHECK_DEADLOCK FALSE
