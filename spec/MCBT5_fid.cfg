SPECIFICATION Spec
CONSTANTS
  KeyU = {1, 2, 3, 4, 5, 6, 7, 8}
  ValU = {1}
  MaxNodes = 14
  M = 5
INVARIANT Fid
ACTION_CONSTRAINT FidEdge
VIEW View
CHECK_DEADLOCK FALSE
